(* Render lemma for the abstract-class method declarations of the Java interface template (macro `parameters` of the base
   template expanded): for EVERY method list, one declaration per IDL method, in order:
     [doc] [@Deprecated]     public static|abstract <return type> <name>(<type name, ...>)[ throws <domains>] ;   (or the CppProxy forwarder for static) *)
From Coq Require Import List String Ascii ZArith Bool Arith Lia.
From PDV Require Import Lib.StrUtil Lang.Comment Marshal.Ident Jinja.Tir Jinja.Inline Jinja.Interp Jinja.InterpLemmas Jinja.Slice
                        Gen.Templates Jinja.FragFlags Jinja.FragEnums Jinja.FragRecord.
Import ListNotations.
Open Scope string_scope. Open Scope list_scope.

Definition jiface_loop_l : list stmt :=
  Eval vm_compute in match nth_for "methods" 0 t_java_interface_jinja2_java with
                     | Some f => inline 4 (macros_of t_java_base_jinja2 ++ macros_of t_java_interface_jinja2_java) [f]
                     | None => [] end.
Definition jiface_body : list stmt := Eval vm_compute in match jiface_loop_l with [SFor _ _ _ b] => b | _ => [] end.
Lemma jiface_shape : jiface_loop_l = [SFor "method" (EAttr (EVar "type_def") "methods") None jiface_body]. Proof. reflexivity. Qed.

Record jparam := mkjparam { jp_type : string; jp_name : string }.
Record jmeth := mkjmeth { jm_has_comment : bool; jm_comment : string; jm_depr : bool; jm_static : bool; jm_ret : string; jm_name : string;
                          jm_params : list jparam; jm_throws : list string; jm_async : bool; jm_has_ret : bool }.
Definition jparamv (p : jparam) : val := VObj [("java", VObj [("data_type", VStr (jp_type p)); ("name", VStr (jp_name p))])].
Definition jthrowv (t : string) : val := VObj [("type_def", VObj [("java", VObj [("typename", VStr t)])])].
Definition jmethv (m : jmeth) : val :=
  VObj [("comment", if jm_has_comment m then VStr "c" else VNone); ("deprecated", VBool (jm_depr m)); ("static", VBool (jm_static m));
        ("parameters", VList (map jparamv (jm_params m))); ("throwing", VList (map jthrowv (jm_throws m)));
        ("asynchronous", VBool (jm_async m)); ("return_type_ref", if jm_has_ret m then VStr "r" else VNone);
        ("java", VObj [("comment", VStr (jm_comment m)); ("return_type", VStr (jm_ret m)); ("name", VStr (jm_name m))])].
Definition jistate (ml : list jmeth) : state := mkst [("type_def", VObj [("methods", VList (map jmethv ml))])] [].

Fixpoint jparams_text (l : list jparam) : string :=
  match l with [] => "" | p :: r => (jp_type p ++ " " ++ jp_name p ++ (match r with [] => "" | _ => ", " end) ++ jparams_text r)%string end.
Fixpoint jargs_text (l : list jparam) : string :=
  match l with [] => "" | p :: r => (jp_name p ++ (match r with [] => "" | _ => ", " end) ++ jargs_text r)%string end.
Fixpoint jthrows_text (l : list string) : string :=
  match l with [] => "" | t :: r => (t ++ (match r with [] => "" | _ => ", " end) ++ jthrows_text r)%string end.

Definition jmethod_decl (m : jmeth) : string :=
  ((if jm_has_comment m then "    " ++ indent_filter (comment_filter (Some "/**") (Some " */") " * " (jm_comment m)) ++ String nl "" else "") ++
   (if jm_depr m then "    @Deprecated" ++ String nl "" else "") ++
   "    public " ++ (if jm_static m then "static" else "abstract") ++ " " ++ jm_ret m ++ " " ++ jm_name m ++ "(" ++ jparams_text (jm_params m) ++ ")" ++
   (match jm_throws m with [] => "" | _ => if jm_async m then "" else " throws " ++ jthrows_text (jm_throws m) end) ++
   (if jm_static m
    then " {" ++ String nl "        " ++ (if jm_has_ret m || jm_async m then "return " else "") ++ "CppProxy." ++ jm_name m ++ "(" ++ jargs_text (jm_params m) ++ ");" ++
         String nl "    };" ++ String nl ""
    else ";" ++ String nl ""))%string.

Definition jp_loop : stmt := Eval vm_compute in nth 11 jiface_body (SOther "missing").
Definition jp_body : list stmt := Eval vm_compute in body_of jp_loop.
Definition jthrows_if : stmt := Eval vm_compute in nth 13 jiface_body (SOther "missing").
Definition jthrows_loop : stmt := Eval vm_compute in match jthrows_if with SIf _ (_ :: l :: _) _ _ => l | _ => SOther "missing" end.
Definition jthrows_body : list stmt := Eval vm_compute in body_of jthrows_loop.
Definition jstatic_if : stmt := Eval vm_compute in nth 14 jiface_body (SOther "missing").
Definition jargs_loop : stmt := Eval vm_compute in match jstatic_if with SIf _ t _ _ => nth 5 t (SOther "missing") | _ => SOther "missing" end.
Definition jargs_body : list stmt := Eval vm_compute in body_of jargs_loop.

Ltac jstep :=
  repeat (rewrite ?execs_cons, ?execs_nil, ?exec_out, ?exec_if0;
          cbn [out_str eval assoc upd String.eqb Ascii.eqb Bool.eqb truthy to_str scope nss bind attr_of loopv negb
               fold_right as_list jparamv jthrowv jp_type jp_name fst snd andb orb]).

(* parameters "type name, type name" *)
Lemma jp_step st p idx last : assoc "with_types" (scope st) = Some (VBool true) ->
  for_step (execs java_cfg) "parameter" jp_body (scope st) (jparamv p) idx last st = (st, (jp_type p ++ " " ++ jp_name p ++ (if last then "" else ", "))%string).
Proof.
  intros Hw. unfold for_step, jp_body. destruct st as [sc ns]. cbn [scope] in Hw. jstep. rewrite Hw. jstep.
  destruct last; jstep; snorm; reflexivity.
Qed.
Lemma jp_loop_over st (Hw : assoc "with_types" (scope st) = Some (VBool true)) : forall l idx,
  loop_over (for_step (execs java_cfg) "parameter" jp_body (scope st)) (map jparamv l) idx st = (st, jparams_text l).
Proof.
  induction l as [|p r IH]; intros idx; [reflexivity|]. cbn [map loop_over].
  replace (match map jparamv r with [] => true | _ => false end) with (match r with [] => true | _ => false end) by (destruct r; reflexivity).
  rewrite (jp_step st p idx _ Hw), IH. cbn [jparams_text]. destruct r; snorm; reflexivity.
Qed.

(* throws list "a.B, c.D" *)
Lemma jt_step st t idx last :
  for_step (execs java_cfg) "error" jthrows_body (scope st) (jthrowv t) idx last st = (st, (t ++ (if last then "" else ", "))%string).
Proof. unfold for_step, jthrows_body. destruct st as [sc ns]. jstep. destruct last; jstep; snorm; reflexivity. Qed.
Lemma jt_loop_over st : forall l idx,
  loop_over (for_step (execs java_cfg) "error" jthrows_body (scope st)) (map jthrowv l) idx st = (st, jthrows_text l).
Proof.
  induction l as [|p r IH]; intros idx; [reflexivity|]. cbn [map loop_over].
  replace (match map jthrowv r with [] => true | _ => false end) with (match r with [] => true | _ => false end) by (destruct r; reflexivity).
  rewrite jt_step, IH. cbn [jthrows_text]. destruct r; snorm; reflexivity.
Qed.

(* forwarded arguments "a, b" *)
Lemma ja_step st p idx last :
  for_step (execs java_cfg) "parameter" jargs_body (scope st) (jparamv p) idx last st = (st, (jp_name p ++ (if last then "" else ", "))%string).
Proof. unfold for_step, jargs_body. destruct st as [sc ns]. jstep. destruct last; jstep; snorm; reflexivity. Qed.
Lemma ja_loop_over st : forall l idx,
  loop_over (for_step (execs java_cfg) "parameter" jargs_body (scope st)) (map jparamv l) idx st = (st, jargs_text l).
Proof.
  induction l as [|p r IH]; intros idx; [reflexivity|]. cbn [map loop_over].
  replace (match map jparamv r with [] => true | _ => false end) with (match r with [] => true | _ => false end) by (destruct r; reflexivity).
  rewrite ja_step, IH. cbn [jargs_text]. destruct r; snorm; reflexivity.
Qed.

Definition S1 (ml : list jmeth) (m : jmeth) (lv : val) : state :=
  mkst [("loop", lv); ("method", jmethv m); ("type_def", VObj [("methods", VList (map jmethv ml))]); ("with_types", VBool true)] [].

Lemma jp_here ml m lv : exec java_cfg jp_loop (S1 ml m lv) = (S1 ml m lv, jparams_text (jm_params m)).
Proof.
  unfold jp_loop. rewrite exec_for. unfold for_items.
  replace (as_list (eval java_cfg (S1 ml m lv) (EAttr (EVar "method") "parameters"))) with (map jparamv (jm_params m)) by reflexivity.
  apply jp_loop_over. reflexivity.
Qed.
Lemma jt_here ml m lv : exec java_cfg jthrows_loop (S1 ml m lv) = (S1 ml m lv, jthrows_text (jm_throws m)).
Proof.
  unfold jthrows_loop. rewrite exec_for. unfold for_items.
  replace (as_list (eval java_cfg (S1 ml m lv) (EAttr (EVar "method") "throwing"))) with (map jthrowv (jm_throws m)) by reflexivity.
  apply jt_loop_over.
Qed.
Lemma ja_here ml m lv : exec java_cfg jargs_loop (S1 ml m lv) = (S1 ml m lv, jargs_text (jm_params m)).
Proof.
  unfold jargs_loop. rewrite exec_for. unfold for_items.
  replace (as_list (eval java_cfg (S1 ml m lv) (EAttr (EVar "method") "parameters"))) with (map jparamv (jm_params m)) by reflexivity.
  apply ja_loop_over.
Qed.

Transparent exec.
Lemma exec_set g x e st : exec g (SSet x e) st = (mkst (upd x (eval g st e) (scope st)) (nss st), "").
Proof. reflexivity. Qed.
Opaque exec.

Ltac jstep_m :=
  repeat (rewrite ?execs_cons, ?execs_nil, ?exec_out, ?exec_if0, ?exec_set;
          cbn [out_str eval assoc upd String.eqb Ascii.eqb Bool.eqb truthy to_str scope nss bind attr_of loopv negb
               fold_right as_list jmethv jistate jm_has_comment jm_comment jm_depr jm_static jm_ret jm_name jm_params jm_throws jm_async jm_has_ret
               g_cstart g_cend g_cprefix java_cfg fst snd andb orb]).

Definition S0 (ml : list jmeth) (m : jmeth) (lv : val) : state :=
  mkst [("loop", lv); ("method", jmethv m); ("type_def", VObj [("methods", VList (map jmethv ml))])] [].
Definition c1 : list stmt := Eval vm_compute in firstn 1 jiface_body.
Definition c2 : list stmt := Eval vm_compute in firstn 1 (skipn 1 jiface_body).
Definition c3 : list stmt := Eval vm_compute in firstn 11 (skipn 2 jiface_body).
Definition c4 : list stmt := Eval vm_compute in firstn 1 (skipn 13 jiface_body).
Definition c5 : list stmt := Eval vm_compute in skipn 14 jiface_body.
Lemma body_split : jiface_body = c1 ++ c2 ++ c3 ++ c4 ++ c5. Proof. reflexivity. Qed.

Lemma c1_exec ml m lv : execs java_cfg c1 (S0 ml m lv) =
  (S0 ml m lv, if jm_has_comment m then ("    " ++ indent_filter (comment_filter (Some "/**") (Some " */") " * " (jm_comment m)) ++ String nl "")%string else "").
Proof. unfold c1, S0. jstep_m. destruct (jm_has_comment m); jstep_m; snorm; reflexivity. Qed.
Lemma c2_exec ml m lv : execs java_cfg c2 (S0 ml m lv) = (S0 ml m lv, if jm_depr m then ("    @Deprecated" ++ String nl "")%string else "").
Proof. unfold c2, S0. jstep_m. destruct (jm_depr m); jstep_m; snorm; reflexivity. Qed.
Lemma c3_exec ml m lv : execs java_cfg c3 (S0 ml m lv) =
  (S1 ml m lv, ("    public " ++ (if jm_static m then "static" else "abstract") ++ " " ++ jm_ret m ++ " " ++ jm_name m ++ "(" ++ jparams_text (jm_params m) ++ ")")%string).
Proof.
  pose proof (jp_here ml m lv) as Hp. unfold jp_loop, S1 in Hp.
  unfold c3, S0, S1. jstep_m. destruct (jm_static m); jstep_m; rewrite Hp; jstep_m; snorm; reflexivity.
Qed.
Lemma c4_exec ml m lv : execs java_cfg c4 (S1 ml m lv) =
  (S1 ml m lv, match jm_throws m with [] => "" | _ => if jm_async m then "" else (" throws " ++ jthrows_text (jm_throws m))%string end).
Proof.
  pose proof (jt_here ml m lv) as Ht. unfold jthrows_loop, S1 in Ht.
  unfold c4, S1. jstep_m. destruct (jm_throws m) as [|t0 tr] eqn:Et; cbn [map truthy andb]; jstep_m; [reflexivity|].
  destruct (jm_async m); cbn [negb andb truthy]; jstep_m; [reflexivity|]. rewrite Ht. jstep_m. snorm. reflexivity.
Qed.
Lemma c5_exec ml m lv : execs java_cfg c5 (S1 ml m lv) =
  (S1 ml m lv, if jm_static m
               then (" {" ++ String nl "        " ++ (if jm_has_ret m || jm_async m then "return " else "") ++ "CppProxy." ++ jm_name m ++ "(" ++ jargs_text (jm_params m) ++ ");" ++
                     String nl "    };" ++ String nl "")%string
               else (";" ++ String nl "")%string).
Proof.
  pose proof (ja_here ml m lv) as Ha. unfold jargs_loop, S1 in Ha.
  unfold c5, S1. jstep_m. destruct (jm_static m); jstep_m; [|snorm; reflexivity].
  rewrite Ha. destruct (jm_has_ret m); jstep_m; [snorm; reflexivity|]. destruct (jm_async m); jstep_m; snorm; reflexivity.
Qed.

Lemma jmethod_step ml m idx last :
  for_step (execs java_cfg) "method" jiface_body (scope (jistate ml)) (jmethv m) idx last (jistate ml) = (jistate ml, jmethod_decl m).
Proof.
  unfold for_step. rewrite body_split.
  change (bind "loop" (loopv idx (Nat.eqb idx 0) last) (bind "method" (jmethv m) (jistate ml))) with (S0 ml m (loopv idx (Nat.eqb idx 0) last)).
  rewrite execs_app, c1_exec. rewrite execs_app, c2_exec. rewrite execs_app, c3_exec. rewrite execs_app, c4_exec, c5_exec.
  unfold jmethod_decl, S1, jistate. cbn [scope nss]. snorm. reflexivity.
Qed.

Lemma loop_over_constj {A} (gv : A -> val) (f : val -> nat -> bool -> state -> state * string) (st : state) (h : A -> string) :
  (forall a idx last, f (gv a) idx last st = (st, h a)) ->
  forall l idx, loop_over f (map gv l) idx st = (st, concat "" (map h l)).
Proof.
  intros Hstep l. induction l as [|a r IH]; intros idx; [reflexivity|].
  cbn [map loop_over]. rewrite Hstep, IH. destruct r; cbn [map concat]; [now rewrite sapp_nil_r | reflexivity].
Qed.

(* one declaration per IDL method, in declaration order, for every method list *)
Theorem java_iface_methods_render ml :
  execs java_cfg jiface_loop_l (jistate ml) = (jistate ml, concat "" (map jmethod_decl ml)).
Proof.
  rewrite jiface_shape, execs_cons, exec_for. unfold for_items.
  replace (as_list (eval java_cfg (jistate ml) (EAttr (EVar "type_def") "methods"))) with (map jmethv ml) by reflexivity.
  rewrite (loop_over_constj jmethv _ (jistate ml) jmethod_decl).
  - rewrite execs_nil. now rewrite sapp_nil_r.
  - intros a idx last. apply jmethod_step.
Qed.

Example java_iface_example :
  jmethod_decl (mkjmeth false "" false false "String" "fetchAll" [mkjparam "String" "userName"; mkjparam "Integer" "retryCount"] ["com.ex.Oops"] false true)
  = ("    public abstract String fetchAll(String userName, Integer retryCount) throws com.ex.Oops;" ++ String nl "")%string.
Proof. reflexivity. Qed.
