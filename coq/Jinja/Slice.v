(* Locating the fragments the properties talk about inside a translated template: the first for-loop that ranges over
   type_def.<attr> (document order, searching through blocks, ifs, call blocks and loops). *)
From Coq Require Import List String ZArith Bool.
From PDV Require Import Jinja.Tir.
Import ListNotations.
Open Scope string_scope. Open Scope list_scope.

Definition is_typedef_attr (attr : string) (e : expr) : bool :=
  match e with
  | EAttr (EVar "type_def") a => String.eqb a attr
  | _ => false
  end.

Fixpoint find_for (attr : string) (s : stmt) {struct s} : option stmt :=
  let find_in := (fix find_in (l : list stmt) : option stmt :=
                    match l with
                    | [] => None
                    | x :: r => match find_for attr x with Some f => Some f | None => find_in r end
                    end) in
  match s with
  | SFor x it test body => if is_typedef_attr attr it then Some s else find_in body
  | SIf _ t elifs f =>
      match find_in t with
      | Some r => Some r
      | None =>
          match (fix go (l : list (expr * list stmt)) : option stmt :=
                   match l with [] => None | (_, b) :: r => match find_in b with Some x => Some x | None => go r end end) elifs with
          | Some r => Some r
          | None => find_in f
          end
      end
  | SCallBlock _ body | SBlock _ body | SMacro _ _ _ body => find_in body
  | _ => None
  end.

Fixpoint find_for_in (attr : string) (l : list stmt) : option stmt :=
  match l with [] => None | x :: r => match find_for attr x with Some f => Some f | None => find_for_in attr r end end.

(* all such loops in document order (a matching loop is not searched further) *)
Fixpoint find_fors (attr : string) (s : stmt) {struct s} : list stmt :=
  let find_in := (fix find_in (l : list stmt) : list stmt := match l with [] => [] | x :: r => find_fors attr x ++ find_in r end) in
  match s with
  | SFor x it test body => if is_typedef_attr attr it then [s] else find_in body
  | SIf _ t elifs f =>
      find_in t ++ (fix go (l : list (expr * list stmt)) : list stmt := match l with [] => [] | (_, b) :: r => find_in b ++ go r end) elifs ++ find_in f
  | SCallBlock _ body | SBlock _ body | SMacro _ _ _ body => find_in body
  | _ => []
  end.
Definition find_fors_in (attr : string) (l : list stmt) : list stmt := flat_map (find_fors attr) l.
Definition nth_for (attr : string) (k : nat) (l : list stmt) : option stmt := nth_error (find_fors_in attr l) k.

(* the first if-statement (document order) whose condition tests  '<tag>' in type_def.deriving  (possibly inside and/or) *)
Fixpoint tests_deriving (tag : string) (e : expr) : bool :=
  match e with
  | ECmp "in" (EStr t) (EAttr (EVar "type_def") "deriving") => String.eqb t tag
  | EAnd a b | EOr a b => tests_deriving tag a || tests_deriving tag b
  | _ => false
  end.
Fixpoint find_ifs (tag : string) (s : stmt) {struct s} : list stmt :=
  let find_in := (fix find_in (l : list stmt) : list stmt := match l with [] => [] | x :: r => find_ifs tag x ++ find_in r end) in
  match s with
  | SIf c t elifs f =>
      if tests_deriving tag c then [s]
      else find_in t ++ (fix go (l : list (expr * list stmt)) : list stmt := match l with [] => [] | (_, b) :: r => find_in b ++ go r end) elifs ++ find_in f
  | SFor _ _ _ body | SCallBlock _ body | SBlock _ body | SMacro _ _ _ body => find_in body
  | _ => []
  end.
Definition find_if_tag (tag : string) (l : list stmt) : option stmt := hd_error (flat_map (find_ifs tag) l).
