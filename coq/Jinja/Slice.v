(* Locating the fragments the properties talk about inside a translated template: the first for-loop that ranges over
   type_def.<attr> (document order, searching through blocks, ifs, call blocks and loops). *)
From Coq Require Import List String ZArith Bool.
From PDV Require Import Jinja.Tir.
Import ListNotations.
Open Scope string_scope. Open Scope list_scope.

Definition is_typedef_attr (attr : string) (e : expr) : bool :=
  match e with
  | EAttr (EVar "type_def") a => String.eqb a attr
  | _ => false
  end.

Fixpoint find_for (attr : string) (s : stmt) {struct s} : option stmt :=
  let find_in := (fix find_in (l : list stmt) : option stmt :=
                    match l with
                    | [] => None
                    | x :: r => match find_for attr x with Some f => Some f | None => find_in r end
                    end) in
  match s with
  | SFor x it test body => if is_typedef_attr attr it then Some s else find_in body
  | SIf _ t elifs f =>
      match find_in t with
      | Some r => Some r
      | None =>
          match (fix go (l : list (expr * list stmt)) : option stmt :=
                   match l with [] => None | (_, b) :: r => match find_in b with Some x => Some x | None => go r end end) elifs with
          | Some r => Some r
          | None => find_in f
          end
      end
  | SCallBlock _ body | SBlock _ body | SMacro _ _ body => find_in body
  | _ => None
  end.

Fixpoint find_for_in (attr : string) (l : list stmt) : option stmt :=
  match l with [] => None | x :: r => match find_for attr x with Some f => Some f | None => find_for_in attr r end end.
