(* Render lemmas for the loops that list names without initialisers: the Java flags enum (ordinary flags only, in order)
   and the C++ enum (all items, in order).  Position in the printed list = ordinal = implicit C value. *)
From Coq Require Import List String Ascii ZArith Bool Arith Lia.
From PDV Require Import Lib.StrUtil Lang.Comment Marshal.Ident Jinja.Tir Jinja.Interp Jinja.InterpLemmas Jinja.Slice
                        Lang.EnumBody Gen.Templates Jinja.FragFlags.
Import ListNotations.
Open Scope string_scope. Open Scope list_scope.

(* ---------------- Java flags ---------------- *)
Definition java_cfg : gencfg := mkgencfg (Some "/**") (Some " */") " * ".
Definition java_flags_loop : stmt :=
  Eval vm_compute in match find_for_in "flags" t_java_flags_jinja2_java with Some f => f | None => SOther "missing" end.
Definition java_flags_body : list stmt :=
  Eval vm_compute in match java_flags_loop with SFor _ _ _ b => b | _ => [] end.
Lemma java_flags_loop_shape :
  java_flags_loop = SFor "flag" (EAttr (EVar "type_def") "flags")
                         (Some (EAnd (ENot (EAttr (EVar "flag") "none")) (ENot (EAttr (EVar "flag") "all")))) java_flags_body.
Proof. reflexivity. Qed.

Definition jflagv (f : flagrec) : val :=
  VObj [("java", VObj [("name", VStr (f_name f)); ("comment", VStr (f_comment f))]);
        ("comment", if f_has_comment f then VStr "c" else VNone);
        ("deprecated", VStr (f_depr f));
        ("none", VBool (f_none f)); ("all", VBool (f_all f))].

Definition jstate (fl : list flagrec) : state := mkst [("type_def", VObj [("flags", VList (map jflagv fl))])] [].

Definition jline (f : flagrec) (last : bool) : string :=
  ((if f_has_comment f then "    " ++ indent_filter (comment_filter (Some "/**") (Some " */") " * " (f_comment f)) ++ String nl "" else "") ++
   (if negb (String.eqb (f_depr f) "") then "    @Deprecated" ++ String nl "" else "") ++
   "    " ++ f_name f ++ (if last then ";" else ",") ++ String nl "")%string.

Ltac tstep_j :=
  repeat (rewrite ?execs_cons, ?execs_nil, ?exec_out, ?exec_if0, ?exec_if1, ?exec_setns;
          cbn [out_str eval assoc upd String.eqb Ascii.eqb Bool.eqb truthy to_str scope nss bind attr_of loopv negb
               fold_right as_list jflagv f_name f_depr f_has_comment f_comment f_none f_all g_cstart g_cend g_cprefix java_cfg
               fst snd andb orb]).

Lemma jfilter_ordinary_items st (l : list flagrec) :
  for_items java_cfg "flag" (Some (EAnd (ENot (EAttr (EVar "flag") "none")) (ENot (EAttr (EVar "flag") "all")))) st (map jflagv l)
  = map jflagv (filter ordinary l).
Proof.
  unfold for_items. induction l as [|f r IH]; [reflexivity|].
  cbn [map filter]. rewrite IH. unfold ordinary.
  cbn [eval bind scope assoc String.eqb Ascii.eqb Bool.eqb attr_of jflagv truthy negb].
  destruct (f_none f), (f_all f); reflexivity.
Qed.

Lemma java_step fl f idx last :
  for_step (execs java_cfg) "flag" java_flags_body (scope (jstate fl)) (jflagv f) idx last (jstate fl) = (jstate fl, jline f last).
Proof.
  unfold for_step, java_flags_body, jstate, jline. tstep_j.
  destruct (f_has_comment f); tstep_j; destruct (String.eqb (f_depr f) ""); cbn [negb truthy]; tstep_j;
    destruct last; tstep_j; snorm; reflexivity.
Qed.

Fixpoint jlines (l : list flagrec) : string :=
  match l with [] => "" | f :: r => (jline f (match r with [] => true | _ => false end) ++ jlines r)%string end.

(* for EVERY flag list: exactly the ordinary flags, in declaration order, one per line *)
Theorem java_flags_loop_renders (fl : list flagrec) :
  exec java_cfg java_flags_loop (jstate fl) = (jstate fl, jlines (filter ordinary fl)).
Proof.
  rewrite java_flags_loop_shape, exec_for.
  replace (as_list (eval java_cfg (jstate fl) (EAttr (EVar "type_def") "flags"))) with (map jflagv fl) by reflexivity.
  rewrite jfilter_ordinary_items.
  destruct (loop_over_map jflagv (for_step (execs java_cfg) "flag" java_flags_body (scope (jstate fl)))
              (fun (_ : unit) s => s = jstate fl) (fun f last _ => jline f last) (fun _ u => u)) with
      (l := filter ordinary fl) (idx := 0) (st := jstate fl) (s := tt) as (st' & E & Hinv).
  - intros a idx last s0 u ->. exists (jstate fl). split; [|reflexivity]. apply java_step.
  - reflexivity.
  - rewrite E, Hinv. f_equal. clear. induction (filter ordinary fl) as [|f r IH]; [reflexivity|]. cbn [fold_lines jlines]. now rewrite IH.
Qed.

(* ---------------- C++ enum ---------------- *)
Record itemrec := mkitem { i_name : string; i_depr : string; i_has_comment : bool; i_comment : string }.

Definition cpp_enum_loop : stmt :=
  Eval vm_compute in match find_for_in "items" t_cpp_header_enum_jinja2_hpp with Some f => f | None => SOther "missing" end.
Definition cpp_enum_body : list stmt :=
  Eval vm_compute in match cpp_enum_loop with SFor _ _ _ b => b | _ => [] end.
Lemma cpp_enum_loop_shape : cpp_enum_loop = SFor "item" (EAttr (EVar "type_def") "items") None cpp_enum_body.
Proof. reflexivity. Qed.

Definition itemv (i : itemrec) : val :=
  VObj [("cpp", VObj [("name", VStr (i_name i)); ("comment", VStr (i_comment i)); ("deprecated", VStr (i_depr i))]);
        ("comment", if i_has_comment i then VStr "c" else VNone)].
Definition estate (il : list itemrec) : state := mkst [("type_def", VObj [("items", VList (map itemv il))])] [].

Definition eline (i : itemrec) (last : bool) : string :=
  ((if i_has_comment i then "    " ++ indent_filter (comment_filter (Some "/**") (Some " */") " * " (i_comment i)) ++ String nl "" else "") ++
   "    " ++ i_name i ++ i_depr i ++ (if last then "" else ",") ++ String nl "")%string.

Ltac tstep_e :=
  repeat (rewrite ?execs_cons, ?execs_nil, ?exec_out, ?exec_if0, ?exec_if1, ?exec_setns;
          cbn [out_str eval assoc upd String.eqb Ascii.eqb Bool.eqb truthy to_str scope nss bind attr_of loopv negb
               fold_right as_list itemv i_name i_depr i_has_comment i_comment g_cstart g_cend g_cprefix cpp_cfg fst snd andb orb]).

Lemma enum_step il i idx last :
  for_step (execs cpp_cfg) "item" cpp_enum_body (scope (estate il)) (itemv i) idx last (estate il) = (estate il, eline i last).
Proof.
  unfold for_step, cpp_enum_body, estate, eline. tstep_e.
  destruct (i_has_comment i); tstep_e; destruct last; tstep_e; snorm; reflexivity.
Qed.

Fixpoint elines (l : list itemrec) : string :=
  match l with [] => "" | i :: r => (eline i (match r with [] => true | _ => false end) ++ elines r)%string end.

(* for EVERY item list: all items, in declaration order, one per line, no initialisers *)
Theorem cpp_enum_loop_renders (il : list itemrec) :
  exec cpp_cfg cpp_enum_loop (estate il) = (estate il, elines il).
Proof.
  rewrite cpp_enum_loop_shape, exec_for. unfold for_items.
  replace (as_list (eval cpp_cfg (estate il) (EAttr (EVar "type_def") "items"))) with (map itemv il) by reflexivity.
  destruct (loop_over_map itemv (for_step (execs cpp_cfg) "item" cpp_enum_body (scope (estate il)))
              (fun (_ : unit) s => s = estate il) (fun i last _ => eline i last) (fun _ u => u)) with
      (l := il) (idx := 0) (st := estate il) (s := tt) as (st' & E & Hinv).
  - intros a idx last s0 u ->. exists (estate il). split; [|reflexivity]. apply enum_step.
  - reflexivity.
  - rewrite E, Hinv. f_equal. clear. induction il as [|i r IH]; [reflexivity|]. cbn [fold_lines elines]. now rewrite IH.
Qed.
