(* The running bit counter of the three C-family flags templates starts at 0 in EVERY render: the template itself executes
   `set counter = namespace(value=0)` at its top level (Jinja runs the top-level statements of a child template on every render,
   before the blocks of the parent), before the block that contains the flags loop, and nothing else assigns to `counter`
   outside that loop.  Together with the render lemmas (which start from counter 0) this is what makes the numbering of one
   flags type independent of whatever was rendered before it. *)
From Coq Require Import List String ZArith Bool.
From PDV Require Import Jinja.Tir Jinja.Slice Gen.Templates.
Import ListNotations.
Open Scope string_scope. Open Scope list_scope.

Definition is_counter_init (s : stmt) : bool :=
  match s with
  | SSet "counter" (ECall (EVar "namespace") [] [("value", EInt 0%Z)]) => true
  | _ => false
  end.
Definition is_content_block (s : stmt) : bool := match s with SBlock "content" _ => true | _ => false end.

(* top level: ... ; set counter = namespace(value=0) ; ... ; block content ; ...   with the set before the block *)
Fixpoint init_before_block (seen_init : bool) (t : list stmt) : bool :=
  match t with
  | [] => false
  | s :: r => if is_content_block s then seen_init else init_before_block (seen_init || is_counter_init s) r
  end.

(* assignments to counter.<attr>: how many, anywhere in the template *)
Fixpoint counter_writes (s : stmt) {struct s} : nat :=
  let go := (fix go (l : list stmt) : nat := match l with [] => 0 | x :: r => counter_writes x + go r end) in
  match s with
  | SSetNs "counter" _ _ => 1
  | SSet "counter" _ => 1
  | SIf _ t elifs f => go t + (fix ge (l : list (expr * list stmt)) : nat := match l with [] => 0 | (_, b) :: r => go b + ge r end) elifs + go f
  | SFor _ _ _ b | SCallBlock _ b | SBlock _ b | SMacro _ _ _ b | SFiltered _ _ b => go b
  | _ => 0
  end.
Definition total_counter_writes (t : list stmt) : nat := fold_right (fun s n => counter_writes s + n) 0 t.
Definition loop_counter_writes (t : list stmt) : nat := match find_for_in "flags" t with Some f => counter_writes f | None => 0 end.

(* initialised before the block, and every other write sits inside the flags loop *)
Definition counter_disciplined (t : list stmt) : bool :=
  init_before_block false t && Nat.eqb (total_counter_writes t) (1 + loop_counter_writes t) && Nat.ltb 0 (loop_counter_writes t).

Theorem flags_counters_start_at_zero :
  counter_disciplined t_cpp_header_flags_jinja2_hpp = true /\
  counter_disciplined t_objc_header_flags_jinja2_h = true /\
  counter_disciplined t_cppcli_header_flags_jinja2_hpp = true.
Proof. vm_compute. repeat split; reflexivity. Qed.
