(* Render lemmas for the item loops of the remaining three enum templates (Java, Objective-C, C++/CLI): for EVERY item list
   the loop prints one enumerator per item, in declaration order, without an initialiser - so the position in the printed
   list is the ordinal / the implicit C value (Lang/EnumBody.v gives the meaning of such a list). *)
From Coq Require Import List String Ascii ZArith Bool Arith Lia.
From PDV Require Import Lib.StrUtil Lang.Comment Marshal.Ident Jinja.Tir Jinja.Interp Jinja.InterpLemmas Jinja.Slice Jinja.LoopPure
                        Gen.Templates Jinja.FragFlags Jinja.FragEnums Jinja.FragFlagsObjc Jinja.FragFlagsCli Jinja.FragRecord.
Import ListNotations.
Open Scope string_scope. Open Scope list_scope.

(* what the three loops read from an item: the IDL-level comment / deprecated (truthiness only), and per generator the
   converted name, the rendered comment (None when there is none) and the deprecation attribute text *)
Record eitem := mkeitem { e_has_comment : bool; e_deprecated : bool; e_name : string; e_comment : option string; e_depr_text : string }.
Definition ostr (o : option string) : val := match o with Some s => VStr s | None => VNone end.
Definition eitemv (gen : string) (i : eitem) : val :=
  VObj [("comment", if e_has_comment i then VStr "c" else VNone);
        ("deprecated", if e_deprecated i then VStr "d" else VNone);
        (gen, VObj [("name", VStr (e_name i)); ("comment", ostr (e_comment i)); ("deprecated", VStr (e_depr_text i))])].
Definition e2state (gen tname : string) (il : list eitem) : state :=
  mkst [("type_def", VObj [("items", VList (map (eitemv gen) il)); (gen, VObj [("name", VStr tname)])])] [].

Ltac tstep_e2 :=
  repeat (rewrite ?execs_cons, ?execs_nil, ?exec_out, ?exec_if0;
          cbn [out_str eval assoc upd String.eqb Ascii.eqb Bool.eqb truthy to_str scope nss bind attr_of loopv negb
               fold_right as_list eitemv ostr e_has_comment e_deprecated e_name e_comment e_depr_text e2state
               g_cstart g_cend g_cprefix cpp_cfg java_cfg objc_cfg cli_cfg fst snd andb orb]).

Ltac e2_loop_proof shape step hfun gen tn il :=
  rewrite shape, exec_for; unfold for_items;
  match goal with |- context [as_list (eval ?g ?st (EAttr (EVar "type_def") "items"))] =>
    replace (as_list (eval g st (EAttr (EVar "type_def") "items"))) with (map (eitemv gen) il) by reflexivity end;
  apply (loop_over_pure (eitemv gen) _ (e2state gen tn il) hfun); intros a idx last; apply step.

(* ---------------- Java enum ---------------- *)
Definition java_enum_loop : stmt := Eval vm_compute in get_loop "items" 0 t_java_enum_jinja2_java.
Definition java_enum_body : list stmt := Eval vm_compute in body_of java_enum_loop.
Lemma java_enum_shape : java_enum_loop = SFor "item" (EAttr (EVar "type_def") "items") None java_enum_body. Proof. reflexivity. Qed.
Definition java_enum_line (i : eitem) (_ : nat) (last : bool) : string :=
  ((if e_has_comment i then "    " ++ indent_filter (comment_filter (Some "/**") (Some " */") " * " (to_str (ostr (e_comment i)))) ++ String nl "" else "") ++
   (if e_deprecated i then "    @Deprecated" ++ String nl "" else "") ++
   "    " ++ e_name i ++ (if last then ";" else ",") ++ String nl "")%string.
Lemma java_enum_step tn il i idx last :
  for_step (execs java_cfg) "item" java_enum_body (scope (e2state "java" tn il)) (eitemv "java" i) idx last (e2state "java" tn il)
  = (e2state "java" tn il, java_enum_line i idx last).
Proof.
  unfold for_step, java_enum_body, java_enum_line. tstep_e2.
  destruct (e_has_comment i); tstep_e2; destruct (e_deprecated i); tstep_e2; destruct last; tstep_e2; snorm; reflexivity.
Qed.
Theorem java_enum_render : forall tn il,
  exec java_cfg java_enum_loop (e2state "java" tn il) = (e2state "java" tn il, plines java_enum_line il 0).
Proof. intros tn il. e2_loop_proof java_enum_shape java_enum_step java_enum_line "java" tn il. Qed.

(* ---------------- Objective-C NS_ENUM ---------------- *)
Definition objc_enum_loop : stmt := Eval vm_compute in get_loop "items" 0 t_objc_header_enum_jinja2_h.
Definition objc_enum_body : list stmt := Eval vm_compute in body_of objc_enum_loop.
Lemma objc_enum_shape : objc_enum_loop = SFor "item" (EAttr (EVar "type_def") "items") None objc_enum_body. Proof. reflexivity. Qed.
Definition has_text (o : option string) : bool := match o with Some s => negb (String.eqb s "") | None => false end.
Definition objc_enum_line (tn : string) (i : eitem) (_ : nat) (last : bool) : string :=
  ((if has_text (e_comment i) then "    " ++ indent_filter (comment_filter None None "/// " (to_str (ostr (e_comment i)))) ++ String nl "" else "") ++
   "    " ++ tn ++ e_name i ++ (if last then "" else ",") ++ String nl "")%string.
Lemma objc_enum_step tn il i idx last :
  for_step (execs objc_cfg) "item" objc_enum_body (scope (e2state "objc" tn il)) (eitemv "objc" i) idx last (e2state "objc" tn il)
  = (e2state "objc" tn il, objc_enum_line tn i idx last).
Proof.
  unfold for_step, objc_enum_body, objc_enum_line, has_text. tstep_e2.
  destruct (e_comment i) as [c|]; tstep_e2; [destruct (String.eqb c ""); cbn [negb]; tstep_e2|]; destruct last; tstep_e2; snorm; reflexivity.
Qed.
Theorem objc_enum_render : forall tn il,
  exec objc_cfg objc_enum_loop (e2state "objc" tn il) = (e2state "objc" tn il, plines (objc_enum_line tn) il 0).
Proof. intros tn il. e2_loop_proof objc_enum_shape objc_enum_step (objc_enum_line tn) "objc" tn il. Qed.

(* ---------------- C++/CLI enum class ---------------- *)
Definition cli_enum_loop : stmt := Eval vm_compute in get_loop "items" 0 t_cppcli_header_enum_jinja2_hpp.
Definition cli_enum_body : list stmt := Eval vm_compute in body_of cli_enum_loop.
Lemma cli_enum_shape : cli_enum_loop = SFor "item" (EAttr (EVar "type_def") "items") None cli_enum_body. Proof. reflexivity. Qed.
Definition cli_enum_line (i : eitem) (_ : nat) (last : bool) : string :=
  ((if has_text (e_comment i) then "    " ++ indent_filter (comment_filter (Some "/**") (Some " */") " * " (to_str (ostr (e_comment i)))) ++ String nl "" else "") ++
   (if e_deprecated i then "    " ++ e_depr_text i ++ String nl "" else "") ++
   "    " ++ e_name i ++ (if last then "" else ",") ++ String nl "")%string.
Lemma cli_enum_step tn il i idx last :
  for_step (execs cli_cfg) "item" cli_enum_body (scope (e2state "cppcli" tn il)) (eitemv "cppcli" i) idx last (e2state "cppcli" tn il)
  = (e2state "cppcli" tn il, cli_enum_line i idx last).
Proof.
  unfold for_step, cli_enum_body, cli_enum_line, has_text. tstep_e2.
  destruct (e_comment i) as [c|]; tstep_e2; [destruct (String.eqb c ""); cbn [negb]; tstep_e2|];
    destruct (e_deprecated i); tstep_e2; destruct last; tstep_e2; snorm; reflexivity.
Qed.
Theorem cli_enum_render : forall tn il,
  exec cli_cfg cli_enum_loop (e2state "cppcli" tn il) = (e2state "cppcli" tn il, plines cli_enum_line il 0).
Proof. intros tn il. e2_loop_proof cli_enum_shape cli_enum_step cli_enum_line "cppcli" tn il. Qed.

(* every line ends with the enumerator  "    <name>[,|;]\n"  and carries no '=': the k-th enumerator is the k-th item *)
Lemma java_enum_line_tail i idx last : exists pre, java_enum_line i idx last = (pre ++ "    " ++ e_name i ++ (if last then ";" else ",") ++ String nl "")%string.
Proof. unfold java_enum_line. eexists. rewrite <- !sapp_assoc. reflexivity. Qed.
Lemma objc_enum_line_tail tn i idx last : exists pre, objc_enum_line tn i idx last = (pre ++ "    " ++ tn ++ e_name i ++ (if last then "" else ",") ++ String nl "")%string.
Proof. unfold objc_enum_line. eexists. reflexivity. Qed.
Lemma cli_enum_line_tail i idx last : exists pre, cli_enum_line i idx last = (pre ++ "    " ++ e_name i ++ (if last then "" else ",") ++ String nl "")%string.
Proof. unfold cli_enum_line. eexists. rewrite <- !sapp_assoc. reflexivity. Qed.

Theorem enum_kth_line : forall tn il k i, nth_error il k = Some i ->
  (exists pre post c, plines java_enum_line il 0 = (pre ++ (c ++ "    " ++ e_name i ++ (if match skipn (S k) il with [] => true | _ => false end then ";" else ",") ++ String nl "") ++ post)%string) /\
  (exists pre post c, plines (objc_enum_line tn) il 0 = (pre ++ (c ++ "    " ++ tn ++ e_name i ++ (if match skipn (S k) il with [] => true | _ => false end then "" else ",") ++ String nl "") ++ post)%string) /\
  (exists pre post c, plines cli_enum_line il 0 = (pre ++ (c ++ "    " ++ e_name i ++ (if match skipn (S k) il with [] => true | _ => false end then "" else ",") ++ String nl "") ++ post)%string).
Proof.
  intros tn il k i Hn. repeat split.
  - destruct (plines_nth java_enum_line il 0 k i Hn) as (pre & post & E). destruct (java_enum_line_tail i (0 + k) (match skipn (S k) il with [] => true | _ => false end)) as (c & Ec).
    exists pre, post, c. rewrite E, Ec. reflexivity.
  - destruct (plines_nth (objc_enum_line tn) il 0 k i Hn) as (pre & post & E). destruct (objc_enum_line_tail tn i (0 + k) (match skipn (S k) il with [] => true | _ => false end)) as (c & Ec).
    exists pre, post, c. rewrite E, Ec. reflexivity.
  - destruct (plines_nth cli_enum_line il 0 k i Hn) as (pre & post & E). destruct (cli_enum_line_tail i (0 + k) (match skipn (S k) il with [] => true | _ => false end)) as (c & Ec).
    exists pre, post, c. rewrite E, Ec. reflexivity.
Qed.
