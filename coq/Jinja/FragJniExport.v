(* The exported native functions "as printed": for EVERY interface, method list and parameter list, each iteration of the
   JNIEXPORT loop of jni/source/interface.jinja2.cpp (macros of the base template expanded, Jinja/Inline.v) starts with
     [[maybe_unused]] JNIEXPORT <ret> JNICALL <jni_prefix>_00024CppProxy_[native_1]<name with _ -> _1>(JNIEnv* jniEnv, jclass | jobject, jlong nativeRef {, <ctype> <name>}) noexcept {
   With Marshal.JniProofs (jni_prefix = Java_ + mangle, replace1 = mangle on method names, get_typename fits the descriptor) the
   printed symbol is the JNI short name of the Java native method and the C parameter list fits its descriptor. *)
From Coq Require Import List String Ascii ZArith Bool Arith Lia.
From PDV Require Import Lib.StrUtil Lang.Comment Marshal.Ident Marshal.Jni Jinja.Tir Jinja.Inline Jinja.Interp Jinja.InterpLemmas Jinja.Slice
                        Gen.Templates Jinja.FragFlags Jinja.FragEnums Jinja.FragRecord.
Import ListNotations.
Open Scope string_scope. Open Scope list_scope.

Definition export_loop_l : list stmt :=
  Eval vm_compute in match nth_for "methods" 1 t_jni_source_interface_jinja2_cpp with
                     | Some f => inline 4 (macros_of t_jni_base_jinja2 ++ macros_of t_jni_source_interface_jinja2_cpp) [f]
                     | None => [] end.
Definition export_body : list stmt := Eval vm_compute in match export_loop_l with [SFor _ _ _ b] => b | _ => [] end.
Definition proto_stmts : list stmt := Eval vm_compute in firstn 11 export_body.
Definition rest_stmts : list stmt := Eval vm_compute in skipn 11 export_body.
Lemma export_loop_shape : export_loop_l = [SFor "method" (EAttr (EVar "type_def") "methods") None (proto_stmts ++ rest_stmts)].
Proof. reflexivity. Qed.

Record xparam := mkxparam { xp_ctype : string; xp_name : string }.
Record xmethod := mkxmethod { xm_ret : string; xm_static : bool; xm_name : string; xm_params : list xparam; xm_other : list (string * val) }.
Definition xparamv (p : xparam) : val := VObj [("jni", VObj [("typename", VStr (xp_ctype p)); ("name", VStr (xp_name p))])].
(* xm_other: whatever else the rest of the body reads from the method (cpp.*, throwing, asynchronous, ...): irrelevant for the prototype *)
Definition xmethodv (m : xmethod) : val :=
  VObj (("static", VBool (xm_static m)) :: ("parameters", VList (map xparamv (xm_params m))) ::
        ("jni", VObj [("return_type_spec", VStr (xm_ret m)); ("name", VStr (xm_name m))]) :: xm_other m).

Definition xparam_text (p : xparam) : string := (", " ++ xp_ctype p ++ " " ++ xp_name p)%string.
Definition proto (prefix : string) (m : xmethod) : string :=
  ("[[maybe_unused]] JNIEXPORT " ++ xm_ret m ++ " JNICALL " ++ prefix ++ "_00024CppProxy_" ++ (if xm_static m then "" else "native_1") ++
   replace_all "_" "_1" (xm_name m) (S (String.length (xm_name m))) ++ "(JNIEnv* jniEnv, " ++ (if xm_static m then "jclass" else "jobject, jlong nativeRef") ++
   concat "" (map xparam_text (xm_params m)) ++ ") noexcept {" ++ String nl "    const ::pydjinni::jni::Jni jni { jniEnv };" ++ String nl "")%string.

(* the scope of one iteration: loop, method, and a type_def that carries the jni prefix (plus anything else) *)
Definition iter_scope (prefix : string) (td_other : list (string * val)) (m : xmethod) (lv : val) (others : list (string * val)) : list (string * val) :=
  ("loop", lv) :: ("method", xmethodv m) :: ("type_def", VObj (("jni", VObj [("jni_prefix", VStr prefix)]) :: td_other)) :: others.

Definition param_loop : stmt := Eval vm_compute in nth 9 proto_stmts (SOther "missing").
Definition param_body : list stmt := Eval vm_compute in body_of param_loop.

Lemma xparam_step st p idx last :
  for_step (execs cpp_cfg) "parameter" param_body (scope st) (xparamv p) idx last st = (st, xparam_text p).
Proof.
  unfold for_step, param_body, xparam_text. destruct st as [sc ns].
  repeat (rewrite ?execs_cons, ?execs_nil, ?exec_out;
          cbn [out_str eval assoc upd String.eqb Ascii.eqb Bool.eqb truthy to_str scope nss bind attr_of loopv negb fold_right xparamv xp_ctype xp_name fst snd]).
  snorm. reflexivity.
Qed.

Lemma xparams_loop st : forall l idx,
  loop_over (for_step (execs cpp_cfg) "parameter" param_body (scope st)) (map xparamv l) idx st = (st, concat "" (map xparam_text l)).
Proof.
  induction l as [|p r IH]; intros idx; [reflexivity|].
  cbn [map loop_over]. rewrite xparam_step, IH. destruct r; cbn [map concat]; [now rewrite sapp_nil_r | reflexivity].
Qed.

Lemma param_loop_exec prefix tdo m lv others ns :
  exec cpp_cfg param_loop (mkst (iter_scope prefix tdo m lv others) ns)
  = (mkst (iter_scope prefix tdo m lv others) ns, concat "" (map xparam_text (xm_params m))).
Proof.
  unfold param_loop. rewrite exec_for. unfold for_items.
  replace (as_list (eval cpp_cfg (mkst (iter_scope prefix tdo m lv others) ns) (EAttr (EVar "method") "parameters")))
    with (map xparamv (xm_params m)) by reflexivity.
  apply xparams_loop.
Qed.

(* the prototype statements print proto and leave the state alone *)
Lemma proto_exec prefix tdo m lv others ns :
  execs cpp_cfg proto_stmts (mkst (iter_scope prefix tdo m lv others) ns) = (mkst (iter_scope prefix tdo m lv others) ns, proto prefix m).
Proof.
  pose proof (param_loop_exec prefix tdo m lv others ns) as Hp. unfold param_loop in Hp.
  unfold proto_stmts, proto.
  repeat (rewrite ?execs_cons, ?execs_nil, ?exec_out;
          cbn [out_str eval assoc String.eqb Ascii.eqb Bool.eqb truthy to_str scope nss attr_of negb fold_right iter_scope xmethodv
               xm_ret xm_static xm_name xm_params fst snd]).
  destruct (xm_static m); cbn [negb truthy to_str];
    repeat (rewrite ?execs_cons, ?execs_nil, ?exec_out, ?Hp;
            cbn [out_str eval assoc String.eqb Ascii.eqb Bool.eqb truthy to_str scope nss attr_of negb fold_right iter_scope xmethodv
                 xm_ret xm_static xm_name xm_params fst snd]);
    snorm; reflexivity.
Qed.

(* every iteration of the real loop body starts with the prototype *)
Theorem export_iteration_starts_with_prototype prefix tdo m idx last others ns :
  exists st' tail,
    execs cpp_cfg (proto_stmts ++ rest_stmts) (mkst (iter_scope prefix tdo m (loopv idx (Nat.eqb idx 0) last) others) ns) = (st', (proto prefix m ++ tail)%string).
Proof.
  rewrite execs_app, proto_exec.
  destruct (execs cpp_cfg rest_stmts _) as [st2 o2]. exists st2, o2. reflexivity.
Qed.

(* ---- the printed symbol is the JNI short name ---- *)
Lemma substring_all s : forall n, String.length s <= n -> substring 0 n s = s.
Proof.
  induction s as [|c r IH]; intros n H; destruct n; cbn in *; try reflexivity; try lia.
  f_equal. apply IH. lia.
Qed.

Lemma replace_all_char (c : ascii) rep s : forall fuel, String.length s < fuel ->
  replace_all (String c "") rep s fuel = replace1 c rep s.
Proof.
  assert (P : forall x, String.prefix "" x = true) by (intros []; reflexivity).
  induction s as [|a r IH]; intros fuel H; destruct fuel; try (cbn in H; lia).
  - reflexivity.
  - cbn [replace_all replace1 String.eqb negb andb String.prefix String.length].
    destruct (ascii_dec c a) as [->|Hne].
    + rewrite ?P, ?Ascii.eqb_refl. cbn [substring]. rewrite substring_all by (cbn; lia).
      rewrite IH by (cbn in H; lia). reflexivity.
    + assert (E : Ascii.eqb a c = false) by (apply Ascii.eqb_neq; congruence). rewrite ?E.
      rewrite IH by (cbn in H; lia). reflexivity.
Qed.

Theorem printed_symbol_is_proxy_symbol pkg name m :
  (decl_jni_prefix pkg name ++ "_00024CppProxy_" ++ (if xm_static m then "" else "native_1") ++
   replace_all "_" "_1" (xm_name m) (S (String.length (xm_name m))))%string = proxy_symbol pkg name (xm_static m) (xm_name m).
Proof. unfold proxy_symbol. rewrite replace_all_char by lia. reflexivity. Qed.
