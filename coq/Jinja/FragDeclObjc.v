(* Render lemmas for the member lists of the Objective-C and C++/CLI record declarations (no compiler for either language
   exists in the sandbox, so the theorem over the translated template is what ties the printed declaration to the field list):
   for EVERY field list
   - the ObjC @interface prints an initialiser and a convenience initialiser whose selector has one  name:(type)name  part per
     field in declaration order (the first part carries no label), and one read-only @property per field with the field's
     type_decl and name;
   - the C++/CLI ref class prints a constructor with one parameter per field, one get-only property per field and one private
     backing field per field, in declaration order, with the field's typename. *)
From Coq Require Import List String Ascii ZArith Bool Arith Lia.
From PDV Require Import Lib.StrUtil Lang.Comment Marshal.Ident Jinja.Tir Jinja.Interp Jinja.InterpLemmas Jinja.Slice Jinja.LoopPure
                        Gen.Templates Jinja.FragFlags Jinja.FragEnums Jinja.FragFlagsObjc Jinja.FragFlagsCli Jinja.FragRecord Jinja.FragEnums2.
Import ListNotations.
Open Scope string_scope. Open Scope list_scope.

(* ---------------------------------------------------------------- Objective-C ---------------------------------------------------------------- *)
Record ofield := mkofield { of_name : string; of_annotation : option string; of_type_decl : string; of_comment : option string;
                            of_attributes : list string }.
Definition ofieldv (f : ofield) : val :=
  VObj [("objc", VObj [("name", VStr (of_name f)); ("annotation", ostr (of_annotation f)); ("type_decl", VStr (of_type_decl f));
                       ("comment", ostr (of_comment f)); ("attributes", VList (map VStr (of_attributes f)))])].
Definition ostate (fl : list ofield) : state := mkst [("type_def", VObj [("fields", VList (map ofieldv fl))])] [].

Ltac tstep_o :=
  repeat (rewrite ?execs_cons, ?execs_nil, ?exec_out, ?exec_if0;
          cbn [out_str eval assoc upd String.eqb Ascii.eqb Bool.eqb truthy to_str scope nss bind attr_of loopv negb
               fold_right as_list ofieldv ostr of_name of_annotation of_type_decl of_comment of_attributes ostate
               g_cstart g_cend g_cprefix objc_cfg cli_cfg fst snd andb orb]).

Ltac o_loop_proof shape step hfun fl :=
  rewrite shape, exec_for; unfold for_items;
  match goal with |- context [as_list (eval ?g ?st (EAttr (EVar "type_def") "fields"))] =>
    replace (as_list (eval g st (EAttr (EVar "type_def") "fields"))) with (map ofieldv fl) by reflexivity end;
  apply (loop_over_pure ofieldv _ (ostate fl) hfun); intros a idx last; apply step.

(* one selector part:  [ <name>]:([<annotation> ]<type_decl>)<name> *)
Definition objc_selector_part (f : ofield) (idx : nat) (_ : bool) : string :=
  ((if Nat.eqb idx 0 then "" else " " ++ of_name f) ++ ":" ++ "(" ++
   (if has_text (of_annotation f) then to_str (ostr (of_annotation f)) ++ " " else "") ++ of_type_decl f ++ ")" ++ of_name f)%string.

Definition objc_init_loop : stmt := Eval vm_compute in get_loop "fields" 0 t_objc_header_record_jinja2_h.
Definition objc_init_body : list stmt := Eval vm_compute in body_of objc_init_loop.
Lemma objc_init_shape : objc_init_loop = SFor "field" (EAttr (EVar "type_def") "fields") None objc_init_body. Proof. reflexivity. Qed.
Lemma objc_init_step fl f idx last :
  for_step (execs objc_cfg) "field" objc_init_body (scope (ostate fl)) (ofieldv f) idx last (ostate fl) = (ostate fl, objc_selector_part f idx last).
Proof.
  unfold for_step, objc_init_body, objc_selector_part, has_text. tstep_o.
  destruct (Nat.eqb idx 0); cbn [negb]; tstep_o; (destruct (of_annotation f) as [a|]; tstep_o; [destruct (String.eqb a ""); cbn [negb]; tstep_o|]); snorm; reflexivity.
Qed.
Theorem objc_init_render : forall fl, exec objc_cfg objc_init_loop (ostate fl) = (ostate fl, plines objc_selector_part fl 0).
Proof. intros fl. o_loop_proof objc_init_shape objc_init_step objc_selector_part fl. Qed.

Definition objc_conv_loop : stmt := Eval vm_compute in get_loop "fields" 1 t_objc_header_record_jinja2_h.
(* the convenience initialiser repeats the same loop *)
Lemma objc_conv_is_init : objc_conv_loop = objc_init_loop. Proof. reflexivity. Qed.
Theorem objc_conv_render : forall fl, exec objc_cfg objc_conv_loop (ostate fl) = (ostate fl, plines objc_selector_part fl 0).
Proof. rewrite objc_conv_is_init. exact objc_init_render. Qed.

Definition objc_prop_loop : stmt := Eval vm_compute in get_loop "fields" 2 t_objc_header_record_jinja2_h.
Definition objc_prop_body : list stmt := Eval vm_compute in body_of objc_prop_loop.
Lemma objc_prop_shape : objc_prop_loop = SFor "field" (EAttr (EVar "type_def") "fields") None objc_prop_body. Proof. reflexivity. Qed.
Definition objc_property (f : ofield) (_ : nat) (_ : bool) : string :=
  ((if has_text (of_comment f) then comment_filter None None "/// " (to_str (ostr (of_comment f))) ++ String nl "" else "") ++
   "@property (nonatomic, readonly" ++ (if has_text (of_annotation f) then ", " ++ to_str (ostr (of_annotation f)) else "") ++ ") " ++
   of_type_decl f ++ " " ++ of_name f ++ concat_filter (map VStr (of_attributes f)) (String nl "") "" ++ ";" ++ String nl "")%string.
Lemma objc_prop_step fl f idx last :
  for_step (execs objc_cfg) "field" objc_prop_body (scope (ostate fl)) (ofieldv f) idx last (ostate fl) = (ostate fl, objc_property f idx last).
Proof.
  unfold for_step, objc_prop_body, objc_property, has_text. tstep_o.
  (destruct (of_comment f) as [c|]; tstep_o; [destruct (String.eqb c ""); cbn [negb]; tstep_o|]);
    (destruct (of_annotation f) as [a|]; tstep_o; [destruct (String.eqb a ""); cbn [negb]; tstep_o|]); snorm; reflexivity.
Qed.
Theorem objc_prop_render : forall fl, exec objc_cfg objc_prop_loop (ostate fl) = (ostate fl, plines objc_property fl 0).
Proof. intros fl. o_loop_proof objc_prop_shape objc_prop_step objc_property fl. Qed.

(* ---------------------------------------------------------------- C++/CLI ---------------------------------------------------------------- *)
Record cfield := mkcfield { cf_name : string; cf_property : string; cf_typename : string; cf_ctor_null : string; cf_prop_null : string;
                            cf_comment : option string; cf_deprecated : bool; cf_depr_text : string }.
Definition cfieldv (f : cfield) : val :=
  VObj [("deprecated", if cf_deprecated f then VStr "d" else VNone);
        ("cppcli", VObj [("name", VStr (cf_name f)); ("property", VStr (cf_property f)); ("typename", VStr (cf_typename f));
                         ("constructor_nullability_attribute", VStr (cf_ctor_null f));
                         ("property_nullability_attribute", VStr (cf_prop_null f));
                         ("comment", ostr (cf_comment f)); ("deprecated", VStr (cf_depr_text f))])].
Definition cstate (fl : list cfield) : state := mkst [("type_def", VObj [("fields", VList (map cfieldv fl))])] [].

Ltac tstep_c :=
  repeat (rewrite ?execs_cons, ?execs_nil, ?exec_out, ?exec_if0;
          cbn [out_str eval assoc upd String.eqb Ascii.eqb Bool.eqb truthy to_str scope nss bind attr_of loopv negb
               fold_right as_list cfieldv ostr cf_name cf_property cf_typename cf_ctor_null cf_prop_null cf_comment cf_deprecated cf_depr_text cstate
               g_cstart g_cend g_cprefix objc_cfg cli_cfg fst snd andb orb]).
Ltac c_loop_proof shape step hfun fl :=
  rewrite shape, exec_for; unfold for_items;
  match goal with |- context [as_list (eval ?g ?st (EAttr (EVar "type_def") "fields"))] =>
    replace (as_list (eval g st (EAttr (EVar "type_def") "fields"))) with (map cfieldv fl) by reflexivity end;
  apply (loop_over_pure cfieldv _ (cstate fl) hfun); intros a idx last; apply step.

Definition cli_ctor_loop : stmt := Eval vm_compute in get_loop "fields" 0 t_cppcli_header_record_jinja2_hpp.
Definition cli_ctor_body : list stmt := Eval vm_compute in body_of cli_ctor_loop.
Lemma cli_ctor_shape : cli_ctor_loop = SFor "field" (EAttr (EVar "type_def") "fields") None cli_ctor_body. Proof. reflexivity. Qed.
Definition cli_ctor_param (f : cfield) (_ : nat) (last : bool) : string :=
  (cf_ctor_null f ++ cf_typename f ++ " " ++ cf_name f ++ (if last then "" else ", "))%string.
Lemma cli_ctor_step fl f idx last :
  for_step (execs cli_cfg) "field" cli_ctor_body (scope (cstate fl)) (cfieldv f) idx last (cstate fl) = (cstate fl, cli_ctor_param f idx last).
Proof. unfold for_step, cli_ctor_body, cli_ctor_param. tstep_c. destruct last; cbn [negb]; tstep_c; snorm; reflexivity. Qed.
Theorem cli_ctor_render : forall fl, exec cli_cfg cli_ctor_loop (cstate fl) = (cstate fl, plines cli_ctor_param fl 0).
Proof. intros fl. c_loop_proof cli_ctor_shape cli_ctor_step cli_ctor_param fl. Qed.

Definition cli_prop_loop : stmt := Eval vm_compute in get_loop "fields" 1 t_cppcli_header_record_jinja2_hpp.
Definition cli_prop_body : list stmt := Eval vm_compute in body_of cli_prop_loop.
Lemma cli_prop_shape : cli_prop_loop = SFor "field" (EAttr (EVar "type_def") "fields") None cli_prop_body. Proof. reflexivity. Qed.
Definition cli_property (f : cfield) (_ : nat) (_ : bool) : string :=
  ((if has_text (cf_comment f) then "    " ++ indent_filter (comment_filter (Some "/**") (Some " */") " * " (to_str (ostr (cf_comment f)))) ++ String nl "" else "") ++
   (if cf_deprecated f then "    " ++ cf_depr_text f ++ String nl "" else "") ++
   (if negb (String.eqb (cf_prop_null f) "") then "    " ++ cf_prop_null f ++ String nl "" else "") ++
   "    property " ++ cf_typename f ++ " " ++ cf_property f ++ String nl "" ++
   "    {" ++ String nl "" ++
   "        " ++ cf_typename f ++ " get();" ++ String nl "" ++
   "    }" ++ String nl "")%string.
Lemma cli_prop_step fl f idx last :
  for_step (execs cli_cfg) "field" cli_prop_body (scope (cstate fl)) (cfieldv f) idx last (cstate fl) = (cstate fl, cli_property f idx last).
Proof.
  unfold for_step, cli_prop_body, cli_property, has_text. tstep_c.
  (destruct (cf_comment f) as [c|]; tstep_c; [destruct (String.eqb c ""); cbn [negb]; tstep_c|]);
    destruct (cf_deprecated f); tstep_c; destruct (String.eqb (cf_prop_null f) ""); cbn [negb]; tstep_c; snorm; reflexivity.
Qed.
Theorem cli_prop_render : forall fl, exec cli_cfg cli_prop_loop (cstate fl) = (cstate fl, plines cli_property fl 0).
Proof. intros fl. c_loop_proof cli_prop_shape cli_prop_step cli_property fl. Qed.

Definition cli_backing_loop : stmt := Eval vm_compute in get_loop "fields" 2 t_cppcli_header_record_jinja2_hpp.
Definition cli_backing_body : list stmt := Eval vm_compute in body_of cli_backing_loop.
Lemma cli_backing_shape : cli_backing_loop = SFor "field" (EAttr (EVar "type_def") "fields") None cli_backing_body. Proof. reflexivity. Qed.
Definition cli_backing (f : cfield) (_ : nat) (_ : bool) : string :=
  ("    " ++ cf_typename f ++ " _" ++ cf_name f ++ ";" ++ String nl "")%string.
Lemma cli_backing_step fl f idx last :
  for_step (execs cli_cfg) "field" cli_backing_body (scope (cstate fl)) (cfieldv f) idx last (cstate fl) = (cstate fl, cli_backing f idx last).
Proof. unfold for_step, cli_backing_body, cli_backing. tstep_c. snorm. reflexivity. Qed.
Theorem cli_backing_render : forall fl, exec cli_cfg cli_backing_loop (cstate fl) = (cstate fl, plines cli_backing fl 0).
Proof. intros fl. c_loop_proof cli_backing_shape cli_backing_step cli_backing fl. Qed.

Theorem objc_cli_loops_are_the_templates :
  Slice.nth_for "fields" 0 t_objc_header_record_jinja2_h = Some objc_init_loop /\
  Slice.nth_for "fields" 1 t_objc_header_record_jinja2_h = Some objc_conv_loop /\
  Slice.nth_for "fields" 2 t_objc_header_record_jinja2_h = Some objc_prop_loop /\
  List.length (Slice.find_fors_in "fields" t_objc_header_record_jinja2_h) = 3 /\
  Slice.nth_for "fields" 0 t_cppcli_header_record_jinja2_hpp = Some cli_ctor_loop /\
  Slice.nth_for "fields" 1 t_cppcli_header_record_jinja2_hpp = Some cli_prop_loop /\
  Slice.nth_for "fields" 2 t_cppcli_header_record_jinja2_hpp = Some cli_backing_loop /\
  List.length (Slice.find_fors_in "fields" t_cppcli_header_record_jinja2_hpp) = 3.
Proof. vm_compute. repeat split; reflexivity. Qed.
