(* Error domains expose exactly their codes, in declaration order: the C++ header forward-declares one class per code, the
   Java file opens one nested class per code (after its doc comment / @Deprecated) - for EVERY code list. *)
From Coq Require Import List String Ascii ZArith Bool Arith Lia.
From PDV Require Import Lib.StrUtil Lang.Comment Marshal.Ident Jinja.Tir Jinja.Interp Jinja.InterpLemmas Jinja.Slice
                        Gen.Templates Jinja.FragFlags Jinja.FragEnums Jinja.FragRecord.
Import ListNotations.
Open Scope string_scope. Open Scope list_scope.

Record ecode := mkecode { ec_cpp : string; ec_java : string; ec_has_comment : bool; ec_comment : string; ec_depr : bool; ec_other : list (string * val) }.
Definition ecodev (c : ecode) : val :=
  VObj (("comment", if ec_has_comment c then VStr "c" else VNone) :: ("deprecated", VBool (ec_depr c)) ::
        ("cpp", VObj [("name", VStr (ec_cpp c))]) :: ("java", VObj [("name", VStr (ec_java c)); ("comment", VStr (ec_comment c))]) :: ec_other c).
Definition estate (dom : string) (cl : list ecode) : state :=
  mkst [("type_def", VObj [("java", VObj [("name", VStr dom)]); ("error_codes", VList (map ecodev cl))])] [].

Lemma loop_over_conste {A} (gv : A -> val) (f : val -> nat -> bool -> state -> state * string) (st : state) (h : A -> string) :
  (forall a idx last, f (gv a) idx last st = (st, h a)) ->
  forall l idx, loop_over f (map gv l) idx st = (st, concat "" (map h l)).
Proof.
  intros Hstep l. induction l as [|a r IH]; intros idx; [reflexivity|].
  cbn [map loop_over]. rewrite Hstep, IH. destruct r; cbn [map concat]; [now rewrite sapp_nil_r | reflexivity].
Qed.

Ltac estep :=
  repeat (rewrite ?execs_cons, ?execs_nil, ?exec_out, ?exec_if0;
          cbn [out_str eval assoc upd String.eqb Ascii.eqb Bool.eqb truthy to_str scope nss bind attr_of loopv negb fold_right as_list
               ecodev estate ec_cpp ec_java ec_has_comment ec_comment ec_depr g_cstart g_cend g_cprefix java_cfg cpp_cfg fst snd andb orb]).

(* ---- C++: forward declarations ---- *)
Definition cpp_codes_loop : stmt := Eval vm_compute in get_loop "error_codes" 0 t_cpp_header_error_domain_jinja2_hpp.
Definition cpp_codes_body : list stmt := Eval vm_compute in body_of cpp_codes_loop.
Lemma cpp_codes_shape : cpp_codes_loop = SFor "error_code" (EAttr (EVar "type_def") "error_codes") None cpp_codes_body. Proof. reflexivity. Qed.
Definition cpp_code_line (c : ecode) : string := ("    class " ++ ec_cpp c ++ ";" ++ String nl "")%string.
Lemma cpp_code_step dom cl c idx last :
  for_step (execs cpp_cfg) "error_code" cpp_codes_body (scope (estate dom cl)) (ecodev c) idx last (estate dom cl) = (estate dom cl, cpp_code_line c).
Proof. unfold for_step, cpp_codes_body, cpp_code_line. estep. snorm. reflexivity. Qed.
Theorem cpp_error_codes_render dom cl :
  exec cpp_cfg cpp_codes_loop (estate dom cl) = (estate dom cl, concat "" (map cpp_code_line cl)).
Proof.
  rewrite cpp_codes_shape, exec_for. unfold for_items.
  replace (as_list (eval cpp_cfg (estate dom cl) (EAttr (EVar "type_def") "error_codes"))) with (map ecodev cl) by reflexivity.
  apply (loop_over_conste ecodev). intros a idx last. apply cpp_code_step.
Qed.

(* ---- Java: one nested class per code ---- *)
Definition java_codes_loop : stmt := Eval vm_compute in get_loop "error_codes" 0 t_java_error_domain_jinja2_java.
Definition java_codes_body : list stmt := Eval vm_compute in body_of java_codes_loop.
Definition jhead : list stmt := Eval vm_compute in firstn 3 java_codes_body.
Definition jrest : list stmt := Eval vm_compute in skipn 3 java_codes_body.
Lemma java_codes_split : java_codes_body = jhead ++ jrest. Proof. reflexivity. Qed.
Definition java_code_head (dom : string) (c : ecode) : string :=
  ((if ec_has_comment c then "    " ++ indent_filter (comment_filter (Some "/**") (Some " */") " * " (ec_comment c)) ++ String nl "" else "") ++
   (if ec_depr c then "    @Deprecated" ++ String nl "" else "") ++
   "    public final static class " ++ ec_java c ++ " extends " ++ dom ++ " {" ++ String nl "")%string.

Lemma jhead_exec dom cl c lv :
  execs java_cfg jhead (bind "loop" lv (bind "error_code" (ecodev c) (estate dom cl)))
  = (bind "loop" lv (bind "error_code" (ecodev c) (estate dom cl)), java_code_head dom c).
Proof.
  unfold jhead, java_code_head. estep.
  destruct (ec_has_comment c); estep; destruct (ec_depr c); estep; snorm; reflexivity.
Qed.

(* every iteration opens the nested class of its code: "... public final static class <Code> extends <Domain> {" *)
Theorem java_error_code_class_opens dom cl c idx last : exists st' tail,
  execs java_cfg java_codes_body (bind "loop" (loopv idx (Nat.eqb idx 0) last) (bind "error_code" (ecodev c) (estate dom cl)))
  = (st', (java_code_head dom c ++ tail)%string).
Proof.
  rewrite java_codes_split, execs_app, jhead_exec.
  destruct (execs java_cfg jrest _) as [st2 o2]. exists st2, o2. reflexivity.
Qed.
