(* Jinja's  | sort  (stable insertion sort on the case-folded string, as modelled in Interp.sort_filter) is a function of
   the SET of items as long as no two items fold to the same key: iterating a Python set through  | sort  gives an order
   that does not depend on the hash seed.  And the static side: every place a set-typed attribute reaches a template is
   an order-insensitive use. *)
From Coq Require Import List String Ascii Bool Arith Lia Permutation Sorted.
From PDV Require Import Lib.StrUtil Marshal.Ident Jinja.Tir Jinja.Interp Gen.Templates Gen.SetAttrs.
Import ListNotations.
Open Scope string_scope. Open Scope list_scope.

(* ---- str_ltb is a strict total order ---- *)
Lemma str_ltb_irrefl a : str_ltb a a = false.
Proof. induction a as [|c r IH]; [reflexivity|]. cbn [str_ltb]. now rewrite Nat.ltb_irrefl. Qed.

Lemma str_ltb_trans a : forall b c, str_ltb a b = true -> str_ltb b c = true -> str_ltb a c = true.
Proof.
  induction a as [|x a' IH]; intros [|y b'] [|z c']; cbn [str_ltb]; try discriminate; try reflexivity.
  destruct (Nat.ltb (nat_of_ascii x) (nat_of_ascii y)) eqn:E1.
  - intros _. destruct (Nat.ltb (nat_of_ascii y) (nat_of_ascii z)) eqn:E2.
    + intros _. apply Nat.ltb_lt in E1, E2. assert (H : Nat.ltb (nat_of_ascii x) (nat_of_ascii z) = true) by (apply Nat.ltb_lt; lia). now rewrite H.
    + destruct (Nat.ltb (nat_of_ascii z) (nat_of_ascii y)) eqn:E3; [discriminate|]. intros _.
      apply Nat.ltb_lt in E1. apply Nat.ltb_ge in E2, E3.
      assert (H : Nat.ltb (nat_of_ascii x) (nat_of_ascii z) = true) by (apply Nat.ltb_lt; lia). now rewrite H.
  - destruct (Nat.ltb (nat_of_ascii y) (nat_of_ascii x)) eqn:E1'; [discriminate|]. intros Hab.
    apply Nat.ltb_ge in E1, E1'. assert (Exy : nat_of_ascii x = nat_of_ascii y) by lia.
    destruct (Nat.ltb (nat_of_ascii y) (nat_of_ascii z)) eqn:E2.
    + intros _. rewrite Exy, E2. reflexivity.
    + destruct (Nat.ltb (nat_of_ascii z) (nat_of_ascii y)) eqn:E3; [discriminate|]. intros Hbc.
      rewrite Exy, E2, E3. eapply IH; eassumption.
Qed.

Lemma str_ltb_total a : forall b, str_ltb a b = false -> str_ltb b a = false -> a = b.
Proof.
  induction a as [|x a' IH]; intros [|y b']; cbn [str_ltb]; try discriminate; [reflexivity|].
  destruct (Nat.ltb (nat_of_ascii x) (nat_of_ascii y)) eqn:E1; [discriminate|].
  destruct (Nat.ltb (nat_of_ascii y) (nat_of_ascii x)) eqn:E2; [discriminate|].
  intros H1 H2. apply Nat.ltb_ge in E1, E2. assert (E : nat_of_ascii x = nat_of_ascii y) by lia.
  assert (Exy : x = y) by (rewrite <- (ascii_nat_embedding x), <- (ascii_nat_embedding y); now rewrite E).
  subst y. f_equal. now apply IH.
Qed.

(* ---- insertion sort ---- *)
Section Sort.
Variable cs : bool.
Notation fold_key := (sort_key cs).
Notation insert_sorted := (insert_sorted_by cs).
Definition klt (a b : val) : Prop := str_ltb (fold_key a) (fold_key b) = true.
Definition fresh (v : val) (l : list val) : Prop := forall x, In x l -> fold_key x <> fold_key v.

Lemma insert_perm v l : Permutation (insert_sorted v l) (v :: l).
Proof.
  induction l as [|x r IH]; [reflexivity|]. cbn [insert_sorted_by].
  destruct (str_ltb (fold_key v) (fold_key x)); [reflexivity|].
  rewrite IH. apply perm_swap.
Qed.

Lemma insert_sorted_keeps v l : StronglySorted klt l -> fresh v l -> StronglySorted klt (insert_sorted v l).
Proof.
  induction l as [|x r IH]; intros Hs Hf; [repeat constructor|].
  inversion Hs as [|? ? Hr Hx]; subst. cbn [insert_sorted_by].
  destruct (str_ltb (fold_key v) (fold_key x)) eqn:E.
  - constructor; [exact Hs|]. constructor; [exact E|].
    rewrite Forall_forall in *. intros y Hy. unfold klt in *. eapply str_ltb_trans; [exact E | now apply Hx].
  - assert (Hxv : klt x v).
    { unfold klt. destruct (str_ltb (fold_key x) (fold_key v)) eqn:E2; [reflexivity|]. exfalso.
      apply (Hf x (or_introl eq_refl)). symmetry. now apply str_ltb_total. }
    constructor.
    + apply IH; [exact Hr|]. intros y Hy. apply Hf. now right.
    + rewrite Forall_forall in *. intros y Hy. apply (Permutation_in _ (insert_perm v r)) in Hy. destruct Hy as [<-|Hy]; [exact Hxv | now apply Hx].
Qed.

Lemma sorted_perm_unique : forall l1 l2, StronglySorted klt l1 -> StronglySorted klt l2 -> Permutation l1 l2 -> l1 = l2.
Proof.
  induction l1 as [|a r1 IH]; intros l2 H1 H2 P.
  - apply Permutation_nil in P. now subst.
  - destruct l2 as [|b r2]; [apply Permutation_sym, Permutation_nil in P; discriminate|].
    inversion H1 as [|? ? Hr1 Ha]; inversion H2 as [|? ? Hr2 Hb]; subst.
    assert (Eab : a = b).
    { assert (Ia : In a (b :: r2)) by (eapply Permutation_in; [exact P | now left]).
      assert (Ib : In b (a :: r1)) by (eapply Permutation_in; [apply Permutation_sym; exact P | now left]).
      destruct Ia as [->|Ia]; [reflexivity|]. destruct Ib as [->|Ib]; [reflexivity|].
      rewrite Forall_forall in Ha, Hb. pose proof (Hb a Ia) as Hba. pose proof (Ha b Ib) as Hab. unfold klt in *.
      pose proof (str_ltb_trans _ _ _ Hab Hba) as T. rewrite str_ltb_irrefl in T. discriminate. }
    subst b. f_equal. apply IH; [assumption | assumption | now apply Permutation_cons_inv with a].
Qed.

Definition distinct_keys (l : list val) : Prop := NoDup (map fold_key l).

Lemma sort_acc_invariant l : forall acc, StronglySorted klt acc -> NoDup (map fold_key (acc ++ l)) ->
  StronglySorted klt (fold_left (fun a v => insert_sorted v a) l acc) /\ Permutation (fold_left (fun a v => insert_sorted v a) l acc) (acc ++ l).
Proof.
  induction l as [|v r IH]; intros acc Hs Hn.
  - cbn. rewrite app_nil_r. split; [exact Hs | reflexivity].
  - cbn [fold_left].
    assert (Hf : fresh v acc).
    { intros x Hx E. rewrite map_app in Hn. cbn [map] in Hn. apply NoDup_remove_2 in Hn. apply Hn. rewrite in_app_iff. left. rewrite <- E. now apply in_map. }
    assert (Hp : Permutation (insert_sorted v acc ++ r) (acc ++ v :: r)).
    { rewrite (insert_perm v acc). cbn [app]. apply Permutation_middle. }
    destruct (IH (insert_sorted v acc)) as [S P].
    + now apply insert_sorted_keeps.
    + eapply Permutation_NoDup; [apply Permutation_map; apply Permutation_sym; exact Hp | exact Hn].
    + split; [exact S|]. now rewrite P.
Qed.

(* the sorted sequence is determined by the set of items *)
Theorem sort_filter_by_perm l l' : distinct_keys l -> Permutation l l' -> sort_filter_by cs l = sort_filter_by cs l'.
Proof.
  intros Hd P. unfold sort_filter_by.
  assert (Hd' : distinct_keys l') by (unfold distinct_keys in *; eapply Permutation_NoDup; [apply Permutation_map; exact P | exact Hd]).
  destruct (sort_acc_invariant l [] (SSorted_nil klt) Hd) as [S1 P1].
  destruct (sort_acc_invariant l' [] (SSorted_nil klt) Hd') as [S2 P2].
  apply sorted_perm_unique; [exact S1 | exact S2|]. cbn [app] in *. rewrite P1, P2. exact P.
Qed.

End Sort.

Theorem sort_filter_perm l l' : distinct_keys false l -> Permutation l l' -> sort_filter l = sort_filter l'.
Proof. apply sort_filter_by_perm. Qed.

(* case-sensitive sort of strings: the key is the string, so a duplicate-free list (the elements of a set) is enough *)
Theorem sort_cs_set l l' : NoDup l -> Permutation l l' ->
  sort_filter_by true (map VStr l) = sort_filter_by true (map VStr l').
Proof.
  intros Hn P. apply sort_filter_by_perm; [|now apply Permutation_map].
  unfold distinct_keys. rewrite map_map. cbn [sort_key to_str]. now rewrite map_id.
Qed.

(* what a sorted loop iterates over *)
Lemma eval_sort g st e : eval g st (EFilter "sort" e [] []) = VList (sort_filter (as_list (eval g st e))).
Proof. reflexivity. Qed.
Lemma eval_sort_cs g st e :
  eval g st (EFilter "sort" e [] [("case_sensitive", EBool true)]) = VList (sort_filter_by true (as_list (eval g st e))).
Proof. reflexivity. Qed.

(* REFUTED without the hypothesis: items that differ only in case keep their incoming order (stable sort on the folded key) *)
Example sort_depends_on_order_when_keys_collide :
  sort_filter [VStr """Foo.hpp"""; VStr """foo.hpp"""] <> sort_filter [VStr """foo.hpp"""; VStr """Foo.hpp"""].
Proof. vm_compute. discriminate. Qed.

(* ---- static: where set-typed attributes reach the templates ---- *)
Definition is_set_attr (a : string) : bool := existsb (String.eqb a) set_attrs.
Fixpoint mentions_set (e : expr) {struct e} : bool :=
  let go := (fix go (l : list expr) : bool := match l with [] => false | x :: r => mentions_set x || go r end) in
  match e with
  | EAttr x a => is_set_attr a || mentions_set x
  | EItem a b => mentions_set a || mentions_set b
  | EConcat l | EListLit l => go l
  | ECond c t f => mentions_set c || mentions_set t || match f with Some x => mentions_set x | None => false end
  | ENot x => mentions_set x
  | EAnd a b | EOr a b | ECmp _ a b | EBin _ a b => mentions_set a || mentions_set b
  | EFilter _ x args _ => mentions_set x || go args
  | ETest _ x args => mentions_set x || go args
  | ECall f args _ => mentions_set f || go args
  | _ => false
  end.
(* order-insensitive uses: under sort, under length, as the container of in / not in, as a truth value *)
Fixpoint order_free (e : expr) {struct e} : bool :=
  let go := (fix go (l : list expr) : bool := match l with [] => true | x :: r => order_free x && go r end) in
  match e with
  | EFilter "sort" _ _ _ | EFilter "length" _ _ _ => true
  | ECmp "in" a _ | ECmp "notin" a _ => order_free a
  | EAttr x a => negb (is_set_attr a) && order_free x
  | EItem a b => order_free a && order_free b
  | EConcat l | EListLit l => go l
  | ECond c t f => order_free t && match f with Some x => order_free x | None => true end    (* c is only tested for truth *)
  | ENot _ => true
  | EAnd a b | EOr a b => order_free a && order_free b
  | ECmp _ a b | EBin _ a b => order_free a && order_free b
  | EFilter _ x args _ => order_free x && go args
  | ETest _ x args => true
  | ECall f args _ => order_free f && go args
  | _ => true
  end.
Fixpoint stmt_order_free (s : stmt) {struct s} : bool :=
  let go := (fix go (l : list stmt) : bool := match l with [] => true | x :: r => stmt_order_free x && go r end) in
  match s with
  | SOut l => forallb order_free l
  | SIf _ t elifs f => go t && (fix ge (l : list (expr * list stmt)) : bool := match l with [] => true | (_, b) :: r => go b && ge r end) elifs && go f
  | SFor _ it test body => order_free it && go body
  | SSet _ e | SSetNs _ _ e => order_free e
  | SCallBlock c body => order_free c && go body
  | SBlock _ body | SMacro _ _ _ body => go body
  | _ => true
  end.

Theorem templates_use_sets_order_free : forallb (fun t : string * string * list stmt => forallb stmt_order_free (snd t)) all_templates = true.
Proof. vm_compute. reflexivity. Qed.

(* the check is not vacuous: the include loops do iterate sets, and an unsorted loop would be rejected *)
Fixpoint has_set_loop (s : stmt) {struct s} : bool :=
  let go := (fix go (l : list stmt) : bool := match l with [] => false | x :: r => has_set_loop x || go r end) in
  match s with
  | SFor _ it _ body => mentions_set it || go body
  | SIf _ t elifs f => go t || (fix ge (l : list (expr * list stmt)) : bool := match l with [] => false | (_, b) :: r => go b || ge r end) elifs || go f
  | SCallBlock _ body | SBlock _ body | SMacro _ _ _ body => go body
  | _ => false
  end.
Example set_loops_exist :
  List.length (filter (fun t : string * string * list stmt => existsb has_set_loop (snd t)) all_templates) >= 5
  /\ stmt_order_free (SFor "i" (EAttr (EAttr (EVar "type_def") "cpp") "header_includes") None []) = false.
Proof. vm_compute. split; [repeat constructor | reflexivity]. Qed.

(* every loop that ranges over a set-typed attribute does so through  | sort(case_sensitive=True) *)
Fixpoint for_iters (s : stmt) {struct s} : list expr :=
  let go := (fix go (l : list stmt) : list expr := match l with [] => [] | x :: r => for_iters x ++ go r end) in
  match s with
  | SFor _ it _ body => it :: go body
  | SIf _ t elifs f => go t ++ (fix ge (l : list (expr * list stmt)) : list expr := match l with [] => [] | (_, b) :: r => go b ++ ge r end) elifs ++ go f
  | SCallBlock _ body | SBlock _ body | SMacro _ _ _ body => go body
  | _ => []
  end.
Definition sorted_cs (e : expr) : bool :=
  match e with
  | EFilter "sort" _ _ kw => existsb (fun p : string * expr => String.eqb (fst p) "case_sensitive" && match snd p with EBool true => true | _ => false end) kw
  | _ => false
  end.
Theorem set_loops_sorted_case_sensitively :
  forallb (fun t : string * string * list stmt => forallb (fun it => negb (mentions_set it) || sorted_cs it) (flat_map for_iters (snd t))) all_templates = true.
Proof. vm_compute. reflexivity. Qed.
