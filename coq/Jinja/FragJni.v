(* Render lemmas for the look-up lines of the JNI header templates: for EVERY field / method list the record header prints
   the constructor signature as the concatenation of Marshal.Jni.ref_sig of the fields and one jniGetFieldID line per
   field with (java name, ref_sig); the interface header prints one jniGetMethodID line per method with the Java
   method name and the method's jni.type_signature.  Together with Props/C07 (ref_sig / type_signature = JVM descriptor
   of what the Java side declares) this is the "as printed" half of C07. *)
From Coq Require Import List String Ascii ZArith Bool Arith Lia.
From PDV Require Import Lib.StrUtil Lang.Comment Marshal.Ident Marshal.Jni Jinja.Tir Jinja.Interp Jinja.InterpLemmas Jinja.Slice
                        Gen.Templates Jinja.FragFlags Jinja.FragEnums Jinja.FragRecord.
Import ListNotations.
Open Scope string_scope. Open Scope list_scope.

Record jfield := mkjfield { jf_jni : string; jf_java : string; jf_ref : tref }.
Definition jfieldv (f : jfield) : val :=
  VObj [("jni", VObj [("name", VStr (jf_jni f))]); ("java", VObj [("name", VStr (jf_java f))]);
        ("type_ref", VObj [("optional", VBool (tr_opt (jf_ref f)));
                           ("type_def", VObj [("jni", VObj [("type_signature", VStr (ti_sig (tr_ty (jf_ref f))));
                                                            ("boxed_type_signature", VStr (ti_boxed_sig (tr_ty (jf_ref f))))])])])].
Definition jstate (fl : list jfield) : state := mkst [("type_def", VObj [("fields", VList (map jfieldv fl))])] [].

Ltac tstep_n :=
  repeat (rewrite ?execs_cons, ?execs_nil, ?exec_out;
          cbn [out_str eval assoc upd String.eqb Ascii.eqb Bool.eqb truthy to_str scope nss bind attr_of loopv negb
               fold_right as_list jfieldv jf_jni jf_java jf_ref jstate fst snd andb orb]).

Lemma loop_over_j {A} (gv : A -> val) (f : val -> nat -> bool -> state -> state * string) (st : state) (h : A -> string) :
  (forall a idx last, f (gv a) idx last st = (st, h a)) ->
  forall l idx, loop_over f (map gv l) idx st = (st, concat "" (map h l)).
Proof.
  intros Hstep l. induction l as [|a r IH]; intros idx; [reflexivity|].
  cbn [map loop_over]. rewrite Hstep, IH. destruct r; cbn [map concat]; [now rewrite sapp_nil_r | reflexivity].
Qed.

(* ---- record: constructor signature pieces and field look-ups ---- *)
Definition rec_sig_loop : stmt := Eval vm_compute in get_loop "fields" 0 t_jni_header_record_jinja2_hpp.
Definition rec_sig_body : list stmt := Eval vm_compute in body_of rec_sig_loop.
Lemma rec_sig_shape : rec_sig_loop = SFor "field" (EAttr (EVar "type_def") "fields") None rec_sig_body. Proof. reflexivity. Qed.

Lemma rec_sig_step fl f idx last :
  for_step (execs cpp_cfg) "field" rec_sig_body (scope (jstate fl)) (jfieldv f) idx last (jstate fl) = (jstate fl, ref_sig (jf_ref f)).
Proof.
  unfold for_step, rec_sig_body, ref_sig. tstep_n. destruct (tr_opt (jf_ref f)); tstep_n; snorm; reflexivity.
Qed.

Theorem rec_constructor_signature_renders fl :
  exec cpp_cfg rec_sig_loop (jstate fl) = (jstate fl, concat "" (map (fun f => ref_sig (jf_ref f)) fl)).
Proof.
  rewrite rec_sig_shape, exec_for. unfold for_items.
  replace (as_list (eval cpp_cfg (jstate fl) (EAttr (EVar "type_def") "fields"))) with (map jfieldv fl) by reflexivity.
  apply (loop_over_j jfieldv). intros a idx last. apply rec_sig_step.
Qed.

Definition rec_field_loop : stmt := Eval vm_compute in get_loop "fields" 1 t_jni_header_record_jinja2_hpp.
Definition rec_field_body : list stmt := Eval vm_compute in body_of rec_field_loop.
Lemma rec_field_shape : rec_field_loop = SFor "field" (EAttr (EVar "type_def") "fields") None rec_field_body. Proof. reflexivity. Qed.
Definition field_lookup_line (f : jfield) : string :=
  ("    const jfieldID field_" ++ jf_jni f ++ " { ::pydjinni::jniGetFieldID(clazz.get(), """ ++ jf_java f ++ """, """ ++ ref_sig (jf_ref f) ++ """) };" ++ String nl "")%string.
Lemma rec_field_step fl f idx last :
  for_step (execs cpp_cfg) "field" rec_field_body (scope (jstate fl)) (jfieldv f) idx last (jstate fl) = (jstate fl, field_lookup_line f).
Proof.
  unfold for_step, rec_field_body, field_lookup_line, ref_sig. tstep_n. destruct (tr_opt (jf_ref f)); tstep_n; snorm; reflexivity.
Qed.
Theorem rec_field_lookups_render fl :
  exec cpp_cfg rec_field_loop (jstate fl) = (jstate fl, concat "" (map field_lookup_line fl)).
Proof.
  rewrite rec_field_shape, exec_for. unfold for_items.
  replace (as_list (eval cpp_cfg (jstate fl) (EAttr (EVar "type_def") "fields"))) with (map jfieldv fl) by reflexivity.
  apply (loop_over_j jfieldv). intros a idx last. apply rec_field_step.
Qed.

(* ---- interface: method look-ups ---- *)
Record jmeth := mkjmeth { jm_jni : string; jm_java : string; jm_sig : string }.
Definition jmethv (m : jmeth) : val :=
  VObj [("jni", VObj [("name", VStr (jm_jni m)); ("type_signature", VStr (jm_sig m))]); ("java", VObj [("name", VStr (jm_java m))])].
Definition mstate (ml : list jmeth) : state := mkst [("type_def", VObj [("methods", VList (map jmethv ml))])] [].
Definition meth_lookup_loop : stmt := Eval vm_compute in get_loop "methods" 1 t_jni_header_interface_jinja2_hpp.
Definition meth_lookup_body : list stmt := Eval vm_compute in body_of meth_lookup_loop.
Lemma meth_lookup_shape : meth_lookup_loop = SFor "method" (EAttr (EVar "type_def") "methods") None meth_lookup_body. Proof. reflexivity. Qed.
Definition method_lookup_line (m : jmeth) : string :=
  ("    const jmethodID method_" ++ jm_jni m ++ " { ::pydjinni::jniGetMethodID(clazz.get(), """ ++ jm_java m ++ """, """ ++ jm_sig m ++ """) };" ++ String nl "")%string.
Lemma meth_lookup_step ml m idx last :
  for_step (execs cpp_cfg) "method" meth_lookup_body (scope (mstate ml)) (jmethv m) idx last (mstate ml) = (mstate ml, method_lookup_line m).
Proof.
  unfold for_step, meth_lookup_body, method_lookup_line, mstate.
  repeat (rewrite ?execs_cons, ?execs_nil, ?exec_out;
          cbn [out_str eval assoc String.eqb Ascii.eqb Bool.eqb to_str scope nss bind attr_of loopv fold_right jmethv jm_jni jm_java jm_sig fst snd]).
  snorm. reflexivity.
Qed.
Theorem method_lookups_render ml :
  exec cpp_cfg meth_lookup_loop (mstate ml) = (mstate ml, concat "" (map method_lookup_line ml)).
Proof.
  rewrite meth_lookup_shape, exec_for. unfold for_items.
  replace (as_list (eval cpp_cfg (mstate ml) (EAttr (EVar "type_def") "methods"))) with (map jmethv ml) by reflexivity.
  apply (loop_over_j jmethv). intros a idx last. apply meth_lookup_step.
Qed.
