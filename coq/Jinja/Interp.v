(* Big-step interpreter for TIR, mirroring Jinja2's runtime for the subset in use: dynamic values, undefined -> empty
   output, for-loops with filter and loop.first/last/index, scoped assignments, namespace objects, the filters the
   templates use.  Macros / call blocks / blocks are executed structurally (body in place). *)
From Coq Require Import List String Ascii ZArith Bool.
From PDV Require Import Lib.StrUtil Lang.Comment Marshal.Ident Jinja.Tir.
Import ListNotations.
Open Scope string_scope. Open Scope list_scope.

Inductive val :=
  | VUndef | VNone | VBool (b : bool) | VInt (z : Z) | VStr (s : string)
  | VList (l : list val) | VObj (fs : list (string * val)) | VNs (n : string).

Record state := mkst { scope : list (string * val); nss : list (string * list (string * val)) }.

(* the comment syntax of the generator whose template is interpreted *)
Record gencfg := mkgencfg { g_cstart : option string; g_cend : option string; g_cprefix : string }.

Fixpoint assoc {A} (k : string) (l : list (string * A)) : option A :=
  match l with [] => None | (k', v) :: t => if String.eqb k k' then Some v else assoc k t end.
Fixpoint upd {A} (k : string) (v : A) (l : list (string * A)) : list (string * A) :=
  match l with [] => [(k, v)] | (k', v') :: t => if String.eqb k k' then (k, v) :: t else (k', v') :: upd k v t end.

Definition bind (x : string) (v : val) (s : state) : state := mkst ((x, v) :: scope s) (nss s).

(* decimal printing of integers *)
Definition digit (n : nat) : string := String (ascii_of_nat (48 + n)) "".
Fixpoint nat_to_str_aux (fuel n : nat) (acc : string) : string :=
  match fuel with
  | 0 => acc
  | S f => let acc' := (digit (n mod 10) ++ acc)%string in if Nat.ltb n 10 then acc' else nat_to_str_aux f (n / 10) acc'
  end.
Definition nat_to_str (n : nat) : string := nat_to_str_aux (S n) n "".
Definition z_to_str (z : Z) : string :=
  match z with Z0 => "0" | Zpos p => nat_to_str (Pos.to_nat p) | Zneg p => ("-" ++ nat_to_str (Pos.to_nat p))%string end.

Definition truthy (v : val) : bool :=
  match v with
  | VUndef | VNone => false
  | VBool b => b
  | VInt z => negb (Z.eqb z 0)
  | VStr s => negb (String.eqb s "")
  | VList l => match l with [] => false | _ => true end
  | VObj _ | VNs _ => true
  end.

Definition to_str (v : val) : string :=
  match v with
  | VUndef => ""
  | VNone => "None"
  | VBool true => "True" | VBool false => "False"
  | VInt z => z_to_str z
  | VStr s => s
  | VList _ => "<list>" | VObj _ => "<object>" | VNs _ => "<namespace>"
  end.

Definition as_list (v : val) : list val := match v with VList l => l | _ => [] end.

(* jinja2 filter indent(width=4, first=False, blank=False) *)
Definition indent_filter (s : string) : string :=
  match split_on nl s with
  | [] => ""
  | first :: rest =>
      join (String nl "") (first :: map (fun l => if String.eqb l "" then l else ("    " ++ l)%string) rest)
  end.
(* indent(width=n) *)
Fixpoint spaces (n : nat) : string := match n with 0 => "" | S k => String " "%char (spaces k) end.
Definition indent_n (n : nat) (s : string) : string :=
  match split_on nl s with
  | [] => ""
  | first :: rest =>
      join (String nl "") (first :: map (fun l => if String.eqb l "" then l else (spaces n ++ l)%string) rest)
  end.

(* pydjinni's concat filter *)
Definition concat_filter (items : list val) (prefix postfix : string) : string :=
  fold_left (fun acc v => (acc ++ prefix ++ to_str v ++ postfix)%string) items "".

(* stable insertion sort on the case-folded string (jinja2 sort, case_sensitive=False) *)
Fixpoint str_ltb (a b : string) : bool :=
  match a, b with
  | EmptyString, EmptyString => false
  | EmptyString, _ => true
  | _, EmptyString => false
  | String x a', String y b' =>
      let nx := nat_of_ascii x in let ny := nat_of_ascii y in
      if Nat.ltb nx ny then true else if Nat.ltb ny nx then false else str_ltb a' b'
  end.
(* the sort key: the string itself with case_sensitive=True, the case-folded string otherwise (Jinja's default) *)
Definition sort_key (cs : bool) (v : val) : string := if cs then to_str v else lower (to_str v).
Definition fold_key (v : val) : string := sort_key false v.
Fixpoint insert_sorted_by (cs : bool) (v : val) (l : list val) : list val :=
  match l with
  | [] => [v]
  | x :: r => if str_ltb (sort_key cs v) (sort_key cs x) then v :: l else x :: insert_sorted_by cs v r
  end.
Definition sort_filter_by (cs : bool) (l : list val) : list val := fold_left (fun acc v => insert_sorted_by cs v acc) l [].
Definition insert_sorted := insert_sorted_by false.
Definition sort_filter (l : list val) : list val := sort_filter_by false l.

(* str.replace for a non-empty pattern *)
Fixpoint replace_all (pat rep s : string) (fuel : nat) : string :=
  match fuel with
  | 0 => s
  | S f => if andb (negb (String.eqb pat "")) (String.prefix pat s) then (rep ++ replace_all pat rep (substring (String.length pat) (String.length s) s) f)%string
           else match s with EmptyString => EmptyString | String c r => String c (replace_all pat rep r f) end
  end.

Definition attr_of (v : val) (a : string) : val :=
  match v with
  | VObj fs => match assoc a fs with Some x => x | None => VUndef end
  | _ => VUndef
  end.

(* canonical spelling of a call with constant arguments: name(a,b,k=v) with True/False/None, integers and strings as written *)
Definition const_repr (e : expr) : string :=
  match e with
  | EBool true => "True" | EBool false => "False" | ENone => "None"
  | EStr s => ("'" ++ s ++ "'")%string
  | EInt z => z_to_str z
  | _ => "?"
  end.
Definition call_key (n : string) (args : list expr) (kwargs : list (string * expr)) : string :=
  (n ++ "(" ++ join "," (map const_repr args ++ map (fun kv => (fst kv ++ "=" ++ const_repr (snd kv))%string) kwargs) ++ ")")%string.

Section Eval.
  Variable g : gencfg.

  Fixpoint eval (st : state) (e : expr) {struct e} : val :=
    let evals := (fix evals (l : list expr) : list val := match l with [] => [] | x :: r => eval st x :: evals r end) in
    let kw := (fix kw (k : string) (l : list (string * expr)) : option val :=
                 match l with [] => None | (k', x) :: r => if String.eqb k k' then Some (eval st x) else kw k r end) in
    match e with
    | EStr s => VStr s
    | EInt z => VInt z
    | EBool b => VBool b
    | ENone => VNone
    | EVar n => match assoc n (scope st) with Some v => v | None => VUndef end
    | EAttr e' a =>
        match eval st e' with
        | VNs n => match assoc n (nss st) with
                   | Some fs => match assoc a fs with Some v => v | None => VUndef end
                   | None => VUndef
                   end
        | v => attr_of v a
        end
    | EItem e' k => match eval st k with
                    | VStr a => attr_of (eval st e') a
                    | VInt i => if Z.ltb i 0 then VUndef else nth (Z.to_nat i) (as_list (eval st e')) VUndef     (* list[i], i >= 0 *)
                    | _ => VUndef
                    end
    | EConcat l => VStr (fold_right (fun v acc => (to_str v ++ acc)%string) "" (evals l))
    | ECond c t f => if truthy (eval st c) then eval st t else match f with Some x => eval st x | None => VUndef end
    | ENot x => VBool (negb (truthy (eval st x)))
    | EAnd a b => let va := eval st a in if truthy va then eval st b else va
    | EOr a b => let va := eval st a in if truthy va then va else eval st b
    | ECmp op a b =>
        match eval st a, eval st b with
        | VStr x, VStr y => VBool (if String.eqb op "eq" then String.eqb x y else if String.eqb op "ne" then negb (String.eqb x y) else false)
        | VInt x, VInt y => VBool (if String.eqb op "eq" then Z.eqb x y else if String.eqb op "ne" then negb (Z.eqb x y)
                                   else if String.eqb op "lt" then Z.ltb x y else if String.eqb op "gt" then Z.ltb y x
                                   else if String.eqb op "lteq" then Z.leb x y else if String.eqb op "gteq" then Z.leb y x else false)
        | VBool x, VBool y => VBool (if String.eqb op "eq" then Bool.eqb x y else if String.eqb op "ne" then negb (Bool.eqb x y) else false)
        | VStr x, VList l =>
            let mem := existsb (fun v => match v with VStr y => String.eqb x y | _ => false end) l in
            VBool (if String.eqb op "in" then mem else if String.eqb op "notin" then negb mem else if String.eqb op "ne" then true else false)
        | _, _ => VBool false
        end
    | EBin op a b =>
        match eval st a, eval st b with
        | VInt x, VInt y => VInt (if String.eqb op "add" then x + y else if String.eqb op "sub" then x - y else x * y)%Z
        | VStr x, VStr y => if String.eqb op "add" then VStr (x ++ y) else VUndef
        | VStr x, VInt y => if String.eqb op "mul" then VStr (fold_right (fun _ acc => (x ++ acc)%string) "" (seq 0 (Z.to_nat y))) else VUndef
        | _, _ => VUndef
        end
    | EFilter name x args kwargs =>
        let v := eval st x in
        if String.eqb name "comment" then VStr (comment_filter (g_cstart g) (g_cend g) (g_cprefix g) (to_str v))
        else if String.eqb name "indent" then
          VStr (match evals args with VInt w :: _ => indent_n (Z.to_nat w) (to_str v) | _ => indent_filter (to_str v) end)
        else if String.eqb name "concat" then
          VStr (concat_filter (as_list v) (match kw "prefix" kwargs with Some p => to_str p | None => "" end)
                              (match kw "postfix" kwargs with Some p => to_str p | None => "" end))
        else if String.eqb name "length" then VInt (Z.of_nat (List.length (as_list v)))
        else if String.eqb name "join" then
          VStr (join (match evals args with s :: _ => to_str s | [] => "" end) (map to_str (as_list v)))
        else if String.eqb name "any" then VBool (existsb truthy (as_list v))
        else if String.eqb name "all" then VBool (forallb truthy (as_list v))
        else if String.eqb name "map" then
          match kw "attribute" kwargs with
          | Some (VStr a) => VList (map (fun o => attr_of o a) (as_list v))
          | _ => VUndef
          end
        else if String.eqb name "sort" then
          VList (sort_filter_by (match kw "case_sensitive" kwargs with Some c => truthy c | None => false end) (as_list v))
        else if String.eqb name "list" then VList (as_list v)
        else if String.eqb name "replace" then
          match evals args with
          | VStr a :: VStr b :: _ => VStr (replace_all a b (to_str v) (S (String.length (to_str v))))
          | _ => VUndef
          end
        else VUndef
    | ETest name x args =>
        let v := eval st x in
        if String.eqb name "defined" then VBool (match v with VUndef => false | _ => true end)
        else if String.eqb name "none" then VBool (match v with VNone => true | _ => false end)
        else VUndef
    | ECall f args kwargs =>
        (* a method call with constant arguments on an object: its result is supplied by the environment under the key
           "name(args)" (the correspondence harness evaluates the call on the real object); macro calls are not evaluated *)
        match f with
        | EAttr o n => attr_of (eval st o) (call_key n args kwargs)
        | _ => VUndef
        end
    | EListLit l => VList (evals l)
    end.

  Definition out_str (st : state) (l : list expr) : string :=
    fold_right (fun e acc => (to_str (eval st e) ++ acc)%string) "" l.

  Definition loopv (idx : nat) (first last : bool) : val :=
    VObj [("index", VInt (Z.of_nat (S idx))); ("index0", VInt (Z.of_nat idx)); ("first", VBool first); ("last", VBool last)].

  (* the body of one iteration is passed in as a function so that recursion on stmt stays structural *)
  Fixpoint loop_over (f : val -> nat -> bool -> state -> state * string) (items : list val) (idx : nat) (st : state) : state * string :=
    match items with
    | [] => (st, "")
    | v :: rest =>
        let '(st1, o1) := f v idx (match rest with [] => true | _ => false end) st in
        let '(st2, o2) := loop_over f rest (S idx) st1 in
        (st2, (o1 ++ o2)%string)
    end.

  Definition for_step (ex : list stmt -> state -> state * string) (x : string) (body : list stmt) (saved : list (string * val)) :
    val -> nat -> bool -> state -> state * string :=
    fun v idx last st0 =>
      let '(st1, o) := ex body (bind "loop" (loopv idx (Nat.eqb idx 0) last) (bind x v st0)) in
      (mkst saved (nss st1), o).

  Definition for_items (x : string) (filt : option expr) (st : state) (items : list val) : list val :=
    match filt with
    | None => items
    | Some t => filter (fun v => truthy (eval (bind x v st) t)) items
    end.

  Fixpoint exec (s : stmt) (st : state) {struct s} : state * string :=
    let execs := (fix execs (l : list stmt) (st : state) : state * string :=
                    match l with
                    | [] => (st, "")
                    | x :: r => let '(st1, o1) := exec x st in let '(st2, o2) := execs r st1 in (st2, (o1 ++ o2)%string)
                    end) in
    match s with
    | SOut l => (st, out_str st l)
    | SIf c t elifs f =>
        if truthy (eval st c) then execs t st
        else (fix go (l : list (expr * list stmt)) : state * string :=
                match l with
                | [] => execs f st
                | (c', b) :: r => if truthy (eval st c') then execs b st else go r
                end) elifs
    | SFor x e filt body =>
        loop_over (for_step execs x body (scope st)) (for_items x filt st (as_list (eval st e))) 0 st
    | SSet x e => (mkst (upd x (eval st e) (scope st)) (nss st), "")
    | SSetNs n a e =>
        (mkst (scope st) (upd n (upd a (eval st e) (match assoc n (nss st) with Some fs => fs | None => [] end)) (nss st)), "")
    | SCallBlock _ body => execs body st
    | SFiltered name args body => let '(st1, o) := execs body st in (st1, to_str (eval st1 (EFilter name (EStr o) args [])))
    | SBlock _ body => execs body st
    | SMacro _ _ _ _ | SExtends _ | SOther _ => (st, "")
    end.

  Definition execs : list stmt -> state -> state * string :=
    fix execs (l : list stmt) (st : state) : state * string :=
      match l with
      | [] => (st, "")
      | x :: r => let '(st1, o1) := exec x st in let '(st2, o2) := execs r st1 in (st2, (o1 ++ o2)%string)
      end.
End Eval.
