(* TIR: a deep embedding of the Jinja subset the 69 templates use (node kinds as produced by jinja2's own parser). *)
From Coq Require Import List String ZArith Bool.
Import ListNotations.
Open Scope string_scope.

Inductive expr :=
  | EStr (s : string) | EInt (z : Z) | EBool (b : bool) | ENone
  | EVar (n : string)
  | EAttr (e : expr) (a : string)
  | EItem (e k : expr)
  | EConcat (l : list expr)
  | ECond (c t : expr) (f : option expr)
  | ENot (e : expr) | EAnd (a b : expr) | EOr (a b : expr)
  | ECmp (op : string) (a b : expr)
  | EBin (op : string) (a b : expr)
  | EFilter (name : string) (e : expr) (args : list expr) (kwargs : list (string * expr))
  | ETest (name : string) (e : expr) (args : list expr)
  | ECall (f : expr) (args : list expr) (kwargs : list (string * expr))
  | EListLit (l : list expr).

Inductive stmt :=
  | SOut (l : list expr)
  | SIf (c : expr) (t : list stmt) (elifs : list (expr * list stmt)) (f : list stmt)
  | SFor (x : string) (iter : expr) (test : option expr) (body : list stmt)
  | SSet (x : string) (e : expr)
  | SSetNs (ns attr : string) (e : expr)
  | SCallBlock (call : expr) (body : list stmt)
  | SMacro (name : string) (args : list string) (defaults : list expr) (body : list stmt)   (* defaults belong to the LAST arguments *)
  | SFiltered (filter : string) (args : list expr) (body : list stmt)                        (* not produced by the translator: output of body through a filter *)
  | SBlock (name : string) (body : list stmt)
  | SExtends (e : expr)
  | SOther (kind : string).
