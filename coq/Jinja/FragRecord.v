(* Render lemmas for the derived-operation loops of the record templates: for EVERY field list the C++ operator== loop
   prints the && chain over all fields in declaration order, the operator< loop the two-if cascade per field in
   declaration order, the Java equals loop the && chain of the per-field expressions and the hashCode loop one
   accumulation line per field - exactly the shapes whose meaning is Lang.RecordOps. *)
From Coq Require Import List String Ascii ZArith Bool Arith Lia.
From PDV Require Import Lib.StrUtil Lang.Comment Marshal.Ident Jinja.Tir Jinja.Interp Jinja.InterpLemmas Jinja.Slice
                        Gen.Templates Jinja.FragFlags Jinja.FragEnums.
Import ListNotations.
Open Scope string_scope. Open Scope list_scope.

Definition get_loop (attr : string) (k : nat) (t : list stmt) : stmt :=
  match nth_for attr k t with Some f => f | None => SOther "missing" end.
Definition body_of (s : stmt) : list stmt := match s with SFor _ _ _ b => b | _ => [] end.

Definition cpp_eq_loop : stmt := Eval vm_compute in get_loop "fields" 0 t_cpp_source_record_jinja2_cpp.
Definition cpp_eq_body : list stmt := Eval vm_compute in body_of cpp_eq_loop.
Definition cpp_lt_loop : stmt := Eval vm_compute in get_loop "fields" 1 t_cpp_source_record_jinja2_cpp.
Definition cpp_lt_body : list stmt := Eval vm_compute in body_of cpp_lt_loop.
Definition java_equals_loop : stmt := Eval vm_compute in get_loop "fields" 4 t_java_record_jinja2_java.
Definition java_equals_body : list stmt := Eval vm_compute in body_of java_equals_loop.
Definition java_hash_loop : stmt := Eval vm_compute in get_loop "fields" 5 t_java_record_jinja2_java.
Definition java_hash_body : list stmt := Eval vm_compute in body_of java_hash_loop.

Lemma cpp_eq_loop_shape : cpp_eq_loop = SFor "field" (EAttr (EVar "type_def") "fields") None cpp_eq_body. Proof. reflexivity. Qed.
Lemma cpp_lt_loop_shape : cpp_lt_loop = SFor "field" (EAttr (EVar "type_def") "fields") None cpp_lt_body. Proof. reflexivity. Qed.
Lemma java_equals_loop_shape : java_equals_loop = SFor "field" (EAttr (EVar "type_def") "fields") None java_equals_body. Proof. reflexivity. Qed.
Lemma java_hash_loop_shape : java_hash_loop = SFor "field" (EAttr (EVar "type_def") "fields") None java_hash_body. Proof. reflexivity. Qed.

(* a field as the templates see it: its C++ name, Java name, the Java equals / hash_code expressions computed by
   java/type.py, and the Java typename / boxed typename of its type (equal exactly for reference types) *)
Record fieldrec := mkfieldrec { fd_cpp : string; fd_java : string; fd_jequals : string; fd_jhash : string; fd_jtype : string; fd_jboxed : string }.
Definition fieldv (f : fieldrec) : val :=
  VObj [("cpp", VObj [("name", VStr (fd_cpp f))]);
        ("java", VObj [("name", VStr (fd_java f)); ("equals", VStr (fd_jequals f)); ("hash_code", VStr (fd_jhash f))]);
        ("type_ref", VObj [("type_def", VObj [("java", VObj [("typename", VStr (fd_jtype f)); ("boxed", VStr (fd_jboxed f))])])])].
(* a record: C++ name, Java name, the deriving set (any order, any duplicates), the fields *)
Record recrec := mkrecrec { r_cpp : string; r_java : string; r_deriving : list string; r_fields : list fieldrec }.
Definition recstate (r : recrec) : state :=
  mkst [("type_def", VObj [("cpp", VObj [("name", VStr (r_cpp r))]); ("java", VObj [("name", VStr (r_java r))]);
                           ("deriving", VList (map VStr (r_deriving r))); ("fields", VList (map fieldv (r_fields r)))])] [].
Definition derives (tag : string) (r : recrec) : bool := existsb (String.eqb tag) (r_deriving r).

Ltac tstep_r :=
  repeat (rewrite ?execs_cons, ?execs_nil, ?exec_out;
          cbn [out_str eval assoc upd String.eqb Ascii.eqb Bool.eqb truthy to_str scope nss bind attr_of loopv negb
               fold_right as_list fieldv fd_cpp fd_java fd_jequals fd_jhash fd_jtype fd_jboxed r_cpp r_java r_deriving r_fields recstate fst snd andb orb seq Z.to_nat Pos.to_nat Pos.iter_op Init.Nat.add]).

Definition pad (first : bool) (n : string) : string := if first then " " else n.

(* ---- C++ operator== ---- *)
Definition eq_line (f : fieldrec) (first last : bool) : string :=
  (pad first "           " ++ "lhs." ++ fd_cpp f ++ " == rhs." ++ fd_cpp f ++ (if last then ";" else " &&") ++ String nl "")%string.

Lemma cpp_eq_step r f idx last :
  for_step (execs cpp_cfg) "field" cpp_eq_body (scope (recstate r)) (fieldv f) idx last (recstate r)
  = (recstate r, eq_line f (Nat.eqb idx 0) last).
Proof.
  unfold for_step, cpp_eq_body, recstate, eq_line, pad. tstep_r.
  destruct (Nat.eqb idx 0); destruct last; tstep_r; snorm; reflexivity.
Qed.

Fixpoint eq_lines (l : list fieldrec) (idx : nat) : string :=
  match l with
  | [] => ""
  | f :: r => (eq_line f (Nat.eqb idx 0) (match r with [] => true | _ => false end) ++ eq_lines r (S idx))%string
  end.

(* the generic loop lemma does not expose the index to the accumulator: thread it explicitly *)
Lemma loop_over_idx (g : fieldrec -> val) (f : val -> nat -> bool -> state -> state * string) (st : state)
      (h : fieldrec -> nat -> bool -> string) :
  (forall a idx last, f (g a) idx last st = (st, h a idx last)) ->
  forall l idx, loop_over f (map g l) idx st =
                (st, (fix go (l : list fieldrec) (idx : nat) : string :=
                        match l with [] => "" | a :: r => (h a idx (match r with [] => true | _ => false end) ++ go r (S idx))%string end) l idx).
Proof.
  intros Hstep l. induction l as [|a r IH]; intros idx; [reflexivity|].
  cbn [map loop_over].
  replace (match map g r with [] => true | _ => false end) with (match r with [] => true | _ => false end) by (destruct r; reflexivity).
  rewrite Hstep, IH. reflexivity.
Qed.

Theorem cpp_eq_loop_renders (r : recrec) : exec cpp_cfg cpp_eq_loop (recstate r) = (recstate r, eq_lines (r_fields r) 0).
Proof.
  rewrite cpp_eq_loop_shape, exec_for. unfold for_items.
  replace (as_list (eval cpp_cfg (recstate r) (EAttr (EVar "type_def") "fields"))) with (map fieldv (r_fields r)) by reflexivity.
  rewrite (loop_over_idx fieldv _ (recstate r) (fun f idx last => eq_line f (Nat.eqb idx 0) last)).
  - reflexivity.
  - intros a idx last. apply cpp_eq_step.
Qed.

(* ---- C++ operator< ---- *)
Definition lt_block (f : fieldrec) : string :=
  ("    if (lhs." ++ fd_cpp f ++ " < rhs." ++ fd_cpp f ++ ") {" ++ String nl "        return true;" ++ String nl "    }" ++ String nl
   "    if (rhs." ++ fd_cpp f ++ " < lhs." ++ fd_cpp f ++ ") {" ++ String nl "        return false;" ++ String nl "    }" ++ String nl "")%string.

Lemma cpp_lt_step r f idx last :
  for_step (execs cpp_cfg) "field" cpp_lt_body (scope (recstate r)) (fieldv f) idx last (recstate r) = (recstate r, lt_block f).
Proof. unfold for_step, cpp_lt_body, recstate, lt_block. tstep_r. snorm. reflexivity. Qed.

Theorem cpp_lt_loop_renders (r : recrec) :
  exec cpp_cfg cpp_lt_loop (recstate r) = (recstate r, fold_right (fun f acc => (lt_block f ++ acc)%string) "" (r_fields r)).
Proof.
  rewrite cpp_lt_loop_shape, exec_for. unfold for_items.
  replace (as_list (eval cpp_cfg (recstate r) (EAttr (EVar "type_def") "fields"))) with (map fieldv (r_fields r)) by reflexivity.
  rewrite (loop_over_idx fieldv _ (recstate r) (fun f _ _ => lt_block f)).
  - f_equal. generalize 0. induction (r_fields r) as [|f l IH]; intros idx; [reflexivity|]. cbn [fold_right]. now rewrite IH.
  - intros a idx last. apply cpp_lt_step.
Qed.

(* ---- Java equals / hashCode ---- *)
Definition jeq_line (f : fieldrec) (first last : bool) : string :=
  (pad first "               " ++ fd_jequals f ++ (if last then ";" else " &&") ++ String nl "")%string.

Lemma java_eq_step r f idx last :
  for_step (execs java_cfg) "field" java_equals_body (scope (recstate r)) (fieldv f) idx last (recstate r)
  = (recstate r, jeq_line f (Nat.eqb idx 0) last).
Proof.
  unfold for_step, java_equals_body, recstate, jeq_line, pad. tstep_r.
  destruct (Nat.eqb idx 0); destruct last; tstep_r; snorm; reflexivity.
Qed.

Fixpoint jeq_lines (l : list fieldrec) (idx : nat) : string :=
  match l with
  | [] => ""
  | f :: r => (jeq_line f (Nat.eqb idx 0) (match r with [] => true | _ => false end) ++ jeq_lines r (S idx))%string
  end.

Theorem java_equals_loop_renders (r : recrec) : exec java_cfg java_equals_loop (recstate r) = (recstate r, jeq_lines (r_fields r) 0).
Proof.
  rewrite java_equals_loop_shape, exec_for. unfold for_items.
  replace (as_list (eval java_cfg (recstate r) (EAttr (EVar "type_def") "fields"))) with (map fieldv (r_fields r)) by reflexivity.
  rewrite (loop_over_idx fieldv _ (recstate r) (fun f idx last => jeq_line f (Nat.eqb idx 0) last)).
  - reflexivity.
  - intros a idx last. apply java_eq_step.
Qed.

Definition jhash_line (f : fieldrec) : string := ("        hashCode = hashCode * 31 + " ++ fd_jhash f ++ ";" ++ String nl "")%string.

Lemma java_hash_step r f idx last :
  for_step (execs java_cfg) "field" java_hash_body (scope (recstate r)) (fieldv f) idx last (recstate r) = (recstate r, jhash_line f).
Proof. unfold for_step, java_hash_body, recstate, jhash_line. tstep_r. snorm. reflexivity. Qed.

Theorem java_hash_loop_renders (r : recrec) :
  exec java_cfg java_hash_loop (recstate r) = (recstate r, fold_right (fun f acc => (jhash_line f ++ acc)%string) "" (r_fields r)).
Proof.
  rewrite java_hash_loop_shape, exec_for. unfold for_items.
  replace (as_list (eval java_cfg (recstate r) (EAttr (EVar "type_def") "fields"))) with (map fieldv (r_fields r)) by reflexivity.
  rewrite (loop_over_idx fieldv _ (recstate r) (fun f _ _ => jhash_line f)).
  - f_equal. generalize 0. induction (r_fields r) as [|f l IH]; intros idx; [reflexivity|]. cbn [fold_right]. now rewrite IH.
  - intros a idx last. apply java_hash_step.
Qed.

(* ---- Java compareTo loop (inside the ord section) ---- *)
Definition java_ord_section : stmt :=
  Eval vm_compute in match find_if_tag "ord" t_java_record_jinja2_java with Some f => f | None => SOther "missing" end.
Definition java_cmp_loop : stmt :=
  Eval vm_compute in match java_ord_section with SIf _ (_ :: l :: _) _ _ => l | _ => SOther "missing" end.
Definition java_cmp_body : list stmt := Eval vm_compute in body_of java_cmp_loop.
Lemma java_cmp_loop_shape : java_cmp_loop = SFor "field" (EAttr (EVar "type_def") "fields") None java_cmp_body. Proof. reflexivity. Qed.

Definition is_ref (f : fieldrec) : bool := String.eqb (fd_jtype f) (fd_jboxed f).
Definition jcmp_block (f : fieldrec) : string :=
  ((if is_ref f
    then "            tempResult = this." ++ fd_java f ++ ".compareTo(other." ++ fd_java f ++ ");" ++ String nl ""
    else "            if (this." ++ fd_java f ++ " < other." ++ fd_java f ++ ") {" ++ String nl
         "                tempResult = -1;" ++ String nl
         "            } else if (this." ++ fd_java f ++ " > other." ++ fd_java f ++ ") {" ++ String nl
         "                tempResult = 1;" ++ String nl
         "            } else {" ++ String nl
         "                tempResult = 0;" ++ String nl
         "            }" ++ String nl "") ++
   "        if (tempResult != 0) {" ++ String nl
   "            return tempResult;" ++ String nl
   "        }" ++ String nl "")%string.

Lemma java_cmp_step r f idx last :
  for_step (execs java_cfg) "field" java_cmp_body (scope (recstate r)) (fieldv f) idx last (recstate r) = (recstate r, jcmp_block f).
Proof.
  unfold for_step, java_cmp_body, recstate, jcmp_block, is_ref.
  rewrite execs_cons, exec_if0.
  cbn [eval assoc String.eqb Ascii.eqb Bool.eqb scope bind attr_of fieldv truthy].
  destruct (String.eqb (fd_jtype f) (fd_jboxed f)); tstep_r; snorm; reflexivity.
Qed.

Theorem java_cmp_loop_renders (r : recrec) :
  exec java_cfg java_cmp_loop (recstate r) = (recstate r, fold_right (fun f acc => (jcmp_block f ++ acc)%string) "" (r_fields r)).
Proof.
  rewrite java_cmp_loop_shape, exec_for. unfold for_items.
  replace (as_list (eval java_cfg (recstate r) (EAttr (EVar "type_def") "fields"))) with (map fieldv (r_fields r)) by reflexivity.
  rewrite (loop_over_idx fieldv _ (recstate r) (fun f _ _ => jcmp_block f)).
  - f_equal. generalize 0. induction (r_fields r) as [|f l IH]; intros idx; [reflexivity|]. cbn [fold_right]. now rewrite IH.
  - intros a idx last. apply java_cmp_step.
Qed.

(* ---- string forms: every field is mentioned, in declaration order ---- *)
Definition cpp_fmt_loop : stmt := Eval vm_compute in get_loop "fields" 2 t_cpp_source_record_jinja2_cpp.
Definition cpp_fmt_body : list stmt := Eval vm_compute in body_of cpp_fmt_loop.
Definition cpp_arg_loop : stmt := Eval vm_compute in get_loop "fields" 3 t_cpp_source_record_jinja2_cpp.
Definition cpp_arg_body : list stmt := Eval vm_compute in body_of cpp_arg_loop.
Definition java_str_loop : stmt := Eval vm_compute in get_loop "fields" 7 t_java_record_jinja2_java.
Definition java_str_body : list stmt := Eval vm_compute in body_of java_str_loop.
Lemma cpp_fmt_loop_shape : cpp_fmt_loop = SFor "field" (EAttr (EVar "type_def") "fields") None cpp_fmt_body. Proof. reflexivity. Qed.
Lemma cpp_arg_loop_shape : cpp_arg_loop = SFor "field" (EAttr (EVar "type_def") "fields") None cpp_arg_body. Proof. reflexivity. Qed.
Lemma java_str_loop_shape : java_str_loop = SFor "field" (EAttr (EVar "type_def") "fields") None java_str_body. Proof. reflexivity. Qed.

Definition cpp_fmt_item (f : fieldrec) (last : bool) : string := (fd_cpp f ++ "={}" ++ (if last then "" else ", "))%string.
Definition cpp_arg_item (f : fieldrec) (last : bool) : string :=
  ("        ::pydjinni::format(value." ++ fd_cpp f ++ ")" ++ (if last then "" else ", ") ++ String nl "")%string.
Definition java_str_item (f : fieldrec) (first : bool) : string :=
  ("            """ ++ (if first then "" else ",") ++ fd_java f ++ "="" + " ++ fd_java f ++ " +" ++ String nl "")%string.

Lemma cpp_fmt_step r f idx last :
  for_step (execs cpp_cfg) "field" cpp_fmt_body (scope (recstate r)) (fieldv f) idx last (recstate r) = (recstate r, cpp_fmt_item f last).
Proof. unfold for_step, cpp_fmt_body, recstate, cpp_fmt_item. tstep_r. destruct last; tstep_r; snorm; reflexivity. Qed.
Lemma cpp_arg_step r f idx last :
  for_step (execs cpp_cfg) "field" cpp_arg_body (scope (recstate r)) (fieldv f) idx last (recstate r) = (recstate r, cpp_arg_item f last).
Proof. unfold for_step, cpp_arg_body, recstate, cpp_arg_item. tstep_r. destruct last; tstep_r; snorm; reflexivity. Qed.
Lemma java_str_step r f idx last :
  for_step (execs java_cfg) "field" java_str_body (scope (recstate r)) (fieldv f) idx last (recstate r) = (recstate r, java_str_item f (Nat.eqb idx 0)).
Proof. unfold for_step, java_str_body, recstate, java_str_item. tstep_r. destruct (Nat.eqb idx 0); tstep_r; snorm; reflexivity. Qed.

Fixpoint items_last (h : fieldrec -> bool -> string) (l : list fieldrec) : string :=
  match l with [] => "" | f :: r => (h f (match r with [] => true | _ => false end) ++ items_last h r)%string end.
Fixpoint items_first (h : fieldrec -> bool -> string) (l : list fieldrec) (idx : nat) : string :=
  match l with [] => "" | f :: r => (h f (Nat.eqb idx 0) ++ items_first h r (S idx))%string end.

Lemma items_first_fix h l : forall idx,
  (fix go (l : list fieldrec) (idx : nat) : string :=
     match l with [] => "" | a :: r => (h a (Nat.eqb idx 0) ++ go r (S idx))%string end) l idx = items_first h l idx.
Proof. induction l as [|a r IH]; intros idx; [reflexivity|]. cbn [items_first]. now rewrite <- IH. Qed.

Theorem cpp_fmt_loop_renders (r : recrec) : exec cpp_cfg cpp_fmt_loop (recstate r) = (recstate r, items_last cpp_fmt_item (r_fields r)).
Proof.
  rewrite cpp_fmt_loop_shape, exec_for. unfold for_items.
  replace (as_list (eval cpp_cfg (recstate r) (EAttr (EVar "type_def") "fields"))) with (map fieldv (r_fields r)) by reflexivity.
  rewrite (loop_over_idx fieldv _ (recstate r) (fun f _ last => cpp_fmt_item f last)).
  - f_equal. generalize 0. induction (r_fields r) as [|f l IH]; intros idx; [reflexivity|]. cbn [items_last]. now rewrite IH.
  - intros a idx last. apply cpp_fmt_step.
Qed.
Theorem cpp_arg_loop_renders (r : recrec) : exec cpp_cfg cpp_arg_loop (recstate r) = (recstate r, items_last cpp_arg_item (r_fields r)).
Proof.
  rewrite cpp_arg_loop_shape, exec_for. unfold for_items.
  replace (as_list (eval cpp_cfg (recstate r) (EAttr (EVar "type_def") "fields"))) with (map fieldv (r_fields r)) by reflexivity.
  rewrite (loop_over_idx fieldv _ (recstate r) (fun f _ last => cpp_arg_item f last)).
  - f_equal. generalize 0. induction (r_fields r) as [|f l IH]; intros idx; [reflexivity|]. cbn [items_last]. now rewrite IH.
  - intros a idx last. apply cpp_arg_step.
Qed.
Theorem java_str_loop_renders (r : recrec) : exec java_cfg java_str_loop (recstate r) = (recstate r, items_first java_str_item (r_fields r) 0).
Proof.
  rewrite java_str_loop_shape, exec_for. unfold for_items.
  replace (as_list (eval java_cfg (recstate r) (EAttr (EVar "type_def") "fields"))) with (map fieldv (r_fields r)) by reflexivity.
  rewrite (loop_over_idx fieldv _ (recstate r) (fun f idx _ => java_str_item f (Nat.eqb idx 0))).
  - f_equal. apply (items_first_fix java_str_item).
  - intros a idx last. apply java_str_step.
Qed.

(* every field name occurs in the rendered string form *)
Theorem cpp_to_string_mentions_every_field (r : recrec) f : In f (r_fields r) ->
  (exists pre post, snd (exec cpp_cfg cpp_fmt_loop (recstate r)) = (pre ++ fd_cpp f ++ "={}" ++ post)%string) /\
  (exists pre post, snd (exec cpp_cfg cpp_arg_loop (recstate r)) = (pre ++ "::pydjinni::format(value." ++ fd_cpp f ++ ")" ++ post)%string).
Proof.
  intros Hin. rewrite cpp_fmt_loop_renders, cpp_arg_loop_renders. cbn [snd]. split.
  - induction (r_fields r) as [|x l IH]; [destruct Hin|]. destruct Hin as [->|Hin]; cbn [items_last].
    + exists "", ((if match l with [] => true | _ => false end then "" else ", ") ++ items_last cpp_fmt_item l)%string.
      unfold cpp_fmt_item. now rewrite !sapp_assoc.
    + destruct (IH Hin) as (pre & post & E). rewrite E. exists (cpp_fmt_item x (match l with [] => true | _ => false end) ++ pre)%string, post. now rewrite !sapp_assoc.
  - induction (r_fields r) as [|x l IH]; [destruct Hin|]. destruct Hin as [->|Hin]; cbn [items_last].
    + exists "        ", ((if match l with [] => true | _ => false end then "" else ", ") ++ String nl "" ++ items_last cpp_arg_item l)%string.
      unfold cpp_arg_item. snorm. reflexivity.
    + destruct (IH Hin) as (pre & post & E). rewrite E. exists (cpp_arg_item x (match l with [] => true | _ => false end) ++ pre)%string, post. now rewrite !sapp_assoc.
Qed.

Theorem java_to_string_mentions_every_field (r : recrec) f : In f (r_fields r) ->
  exists pre post, snd (exec java_cfg java_str_loop (recstate r)) = (pre ++ fd_java f ++ "="" + " ++ fd_java f ++ " +" ++ post)%string.
Proof.
  intros Hin. rewrite java_str_loop_renders. cbn [snd]. generalize 0.
  induction (r_fields r) as [|x l IH]; [destruct Hin|]. intros idx. destruct Hin as [->|Hin]; cbn [items_first].
  - exists ("            """ ++ (if Nat.eqb idx 0 then "" else ","))%string, (String nl "" ++ items_first java_str_item l (S idx))%string.
    unfold java_str_item. snorm. destruct (Nat.eqb idx 0); snorm; reflexivity.
  - destruct (IH Hin (S idx)) as (pre & post & E). rewrite E. exists (java_str_item x (Nat.eqb idx 0) ++ pre)%string, post. now rewrite !sapp_assoc.
Qed.

(* ================= whole sections ================= *)
Lemma execs_app g a : forall b st,
  execs g (a ++ b) st = let '(st1, o1) := execs g a st in let '(st2, o2) := execs g b st1 in (st2, (o1 ++ o2)%string).
Proof.
  induction a as [|x a IH]; intros b st; cbn [app].
  - rewrite execs_nil. destruct (execs g b st). reflexivity.
  - rewrite !execs_cons. destruct (exec g x st) as [s1 o1]. rewrite IH.
    destruct (execs g a s1) as [s2 o2]. destruct (execs g b s2) as [s3 o3]. now rewrite sapp_assoc.
Qed.

Lemma existsb_vstr tag l :
  existsb (fun v => match v with VStr y => String.eqb tag y | _ => false end) (map VStr l) = existsb (String.eqb tag) l.
Proof. induction l as [|x r IH]; [reflexivity|]. cbn [map existsb]. now rewrite IH. Qed.

Lemma eval_derives g tag r :
  eval g (recstate r) (ECmp "in" (EStr tag) (EAttr (EVar "type_def") "deriving")) = VBool (derives tag r).
Proof.
  unfold recstate, derives. cbn [eval assoc scope String.eqb Ascii.eqb Bool.eqb attr_of]. now rewrite existsb_vstr.
Qed.
Lemma eval_fields g r : eval g (recstate r) (EAttr (EVar "type_def") "fields") = VList (map fieldv (r_fields r)).
Proof. reflexivity. Qed.
Definition no_fields (r : recrec) : bool := match r_fields r with [] => true | _ => false end.
Lemma truthy_fields r : truthy (VList (map fieldv (r_fields r))) = negb (no_fields r).
Proof. unfold no_fields. destruct (r_fields r); reflexivity. Qed.

Definition nth_stmt (k : nat) (s : stmt) : stmt := match s with SIf _ t _ _ => nth k t (SOther "missing") | _ => SOther "missing" end.
Definition out_of (s : stmt) : list expr := match s with SOut l => l | _ => [] end.

(* ---- C++ eq section ---- *)
Definition cpp_eq_section : stmt :=
  Eval vm_compute in match find_if_tag "eq" t_cpp_source_record_jinja2_cpp with Some f => f | None => SOther "missing" end.
Definition cpp_eq_head : list expr := Eval vm_compute in out_of (nth_stmt 0 cpp_eq_section).
Definition cpp_eq_empty : stmt := Eval vm_compute in nth_stmt 2 cpp_eq_section.
Definition cpp_eq_tail : list expr := Eval vm_compute in out_of (nth_stmt 3 cpp_eq_section).
Lemma cpp_eq_section_shape :
  cpp_eq_section = SIf (ECmp "in" (EStr "eq") (EAttr (EVar "type_def") "deriving"))
                       [SOut cpp_eq_head; cpp_eq_loop; cpp_eq_empty; SOut cpp_eq_tail] [] [].
Proof. reflexivity. Qed.

Definition cpp_eq_text (r : recrec) : string :=
  ("bool operator==(const " ++ r_cpp r ++ "& lhs, const " ++ r_cpp r ++ "& rhs) {" ++ String nl
   "    return" ++ eq_lines (r_fields r) 0 ++ (if no_fields r then "    true;" ++ String nl "" else "") ++
   "}" ++ String nl
   "bool operator!=(const " ++ r_cpp r ++ "& lhs, const " ++ r_cpp r ++ "& rhs) {" ++ String nl
   "    return !(lhs == rhs);" ++ String nl
   "}" ++ String nl "")%string.

Ltac sect_step :=
  repeat (rewrite ?execs_cons, ?execs_nil, ?exec_out;
          cbn [out_str eval assoc String.eqb Ascii.eqb Bool.eqb to_str scope attr_of fold_right recstate fst snd]).

Theorem cpp_eq_section_renders (r : recrec) :
  exec cpp_cfg cpp_eq_section (recstate r) = (recstate r, if derives "eq" r then cpp_eq_text r else "").
Proof.
  rewrite cpp_eq_section_shape, exec_if0, eval_derives. cbn [truthy].
  destruct (derives "eq" r); [|reflexivity].
  rewrite execs_cons, exec_out. rewrite execs_cons, cpp_eq_loop_renders. rewrite execs_cons.
  unfold cpp_eq_empty. rewrite exec_if0.
  change (eval cpp_cfg (recstate r) (ENot (EAttr (EVar "type_def") "fields")))
    with (VBool (negb (truthy (eval cpp_cfg (recstate r) (EAttr (EVar "type_def") "fields"))))).
  rewrite eval_fields, truthy_fields, negb_involutive. cbn [truthy].
  unfold cpp_eq_text, cpp_eq_head, cpp_eq_tail.
  destruct (no_fields r); sect_step; snorm; reflexivity.
Qed.

(* ---- C++ ord section ---- *)
Definition cpp_ord_section : stmt :=
  Eval vm_compute in match find_if_tag "ord" t_cpp_source_record_jinja2_cpp with Some f => f | None => SOther "missing" end.
Definition cpp_ord_head : list expr := Eval vm_compute in out_of (nth_stmt 0 cpp_ord_section).
Definition cpp_ord_tail : list expr := Eval vm_compute in out_of (nth_stmt 2 cpp_ord_section).
Lemma cpp_ord_section_shape :
  cpp_ord_section = SIf (ECmp "in" (EStr "ord") (EAttr (EVar "type_def") "deriving")) [SOut cpp_ord_head; cpp_lt_loop; SOut cpp_ord_tail] [] [].
Proof. reflexivity. Qed.

Definition cpp_rel (n op body : string) : string :=
  ("bool operator" ++ op ++ "(const " ++ n ++ "& lhs, const " ++ n ++ "& rhs) {" ++ String nl "    return " ++ body ++ ";" ++ String nl "}" ++ String nl "")%string.
Definition cpp_ord_text (r : recrec) : string :=
  ("bool operator<(const " ++ r_cpp r ++ "& lhs, const " ++ r_cpp r ++ "& rhs) {" ++ String nl "" ++
   fold_right (fun f acc => (lt_block f ++ acc)%string) "" (r_fields r) ++
   "    return false;" ++ String nl "}" ++ String nl "" ++ String nl "" ++
   cpp_rel (r_cpp r) ">" "rhs < lhs" ++ String nl "" ++
   cpp_rel (r_cpp r) "<=" "!(rhs < lhs)" ++ String nl "" ++
   cpp_rel (r_cpp r) ">=" "!(lhs < rhs)")%string.

Theorem cpp_ord_section_renders (r : recrec) :
  exec cpp_cfg cpp_ord_section (recstate r) = (recstate r, if derives "ord" r then cpp_ord_text r else "").
Proof.
  rewrite cpp_ord_section_shape, exec_if0, eval_derives. cbn [truthy].
  destruct (derives "ord" r); [|reflexivity].
  rewrite execs_cons, exec_out. rewrite execs_cons, cpp_lt_loop_renders.
  unfold cpp_ord_text, cpp_rel, cpp_ord_head, cpp_ord_tail. sect_step. snorm. reflexivity.
Qed.

(* ---- Java eq section: equals + hashCode ---- *)
Definition java_eq_section : stmt :=
  Eval vm_compute in match find_if_tag "eq" t_java_record_jinja2_java with Some f => f | None => SOther "missing" end.
Definition java_eq_head : list expr := Eval vm_compute in out_of (nth_stmt 0 java_eq_section).
Definition java_eq_empty : stmt := Eval vm_compute in nth_stmt 2 java_eq_section.
Definition java_eq_mid : list expr := Eval vm_compute in out_of (nth_stmt 3 java_eq_section).
Definition java_eq_tail : list expr := Eval vm_compute in out_of (nth_stmt 5 java_eq_section).
Lemma java_eq_section_shape :
  java_eq_section = SIf (ECmp "in" (EStr "eq") (EAttr (EVar "type_def") "deriving"))
                        [SOut java_eq_head; java_equals_loop; java_eq_empty; SOut java_eq_mid; java_hash_loop; SOut java_eq_tail] [] [].
Proof. reflexivity. Qed.

Definition java_eq_text (r : recrec) : string :=
  ("    @Override" ++ String nl
   "    public boolean equals(Object obj) {" ++ String nl
   "        if (!(obj instanceof " ++ r_java r ++ ")) {" ++ String nl
   "            return false;" ++ String nl
   "        }" ++ String nl
   "        " ++ r_java r ++ " other = (" ++ r_java r ++ ") obj;" ++ String nl
   "        return" ++ jeq_lines (r_fields r) 0 ++ (if no_fields r then "        true;" ++ String nl "" else "") ++
   "    }" ++ String nl "" ++ String nl
   "    @Override" ++ String nl
   "    public int hashCode() {" ++ String nl
   "        // Pick an arbitrary non-zero starting value" ++ String nl
   "        int hashCode = 17;" ++ String nl "" ++
   fold_right (fun f acc => (jhash_line f ++ acc)%string) "" (r_fields r) ++
   "        return hashCode;" ++ String nl
   "    }" ++ String nl "")%string.

Theorem java_eq_section_renders (r : recrec) :
  exec java_cfg java_eq_section (recstate r) = (recstate r, if derives "eq" r then java_eq_text r else "").
Proof.
  rewrite java_eq_section_shape, exec_if0, eval_derives. cbn [truthy].
  destruct (derives "eq" r); [|reflexivity].
  change [SOut java_eq_head; java_equals_loop; java_eq_empty; SOut java_eq_mid; java_hash_loop; SOut java_eq_tail]
    with ([SOut java_eq_head; java_equals_loop; java_eq_empty] ++ [SOut java_eq_mid; java_hash_loop; SOut java_eq_tail]).
  rewrite execs_app.
  assert (Hrest : execs java_cfg [SOut java_eq_mid; java_hash_loop; SOut java_eq_tail] (recstate r) =
                  (recstate r, ("    }" ++ String nl "" ++ String nl
   "    @Override" ++ String nl
   "    public int hashCode() {" ++ String nl
   "        // Pick an arbitrary non-zero starting value" ++ String nl
   "        int hashCode = 17;" ++ String nl "" ++
   fold_right (fun f acc => (jhash_line f ++ acc)%string) "" (r_fields r) ++
   "        return hashCode;" ++ String nl
   "    }" ++ String nl "")%string)).
  { rewrite execs_cons, exec_out. rewrite execs_cons, java_hash_loop_renders.
    unfold java_eq_mid, java_eq_tail. sect_step. snorm. reflexivity. }
  assert (Hfirst : execs java_cfg [SOut java_eq_head; java_equals_loop; java_eq_empty] (recstate r) =
                   (recstate r, ("    @Override" ++ String nl
   "    public boolean equals(Object obj) {" ++ String nl
   "        if (!(obj instanceof " ++ r_java r ++ ")) {" ++ String nl
   "            return false;" ++ String nl
   "        }" ++ String nl
   "        " ++ r_java r ++ " other = (" ++ r_java r ++ ") obj;" ++ String nl
   "        return" ++ jeq_lines (r_fields r) 0 ++ (if no_fields r then "        true;" ++ String nl "" else ""))%string)).
  { rewrite execs_cons, exec_out. rewrite execs_cons, java_equals_loop_renders. rewrite execs_cons.
    unfold java_eq_empty. rewrite exec_if0.
    change (eval java_cfg (recstate r) (ENot (EAttr (EVar "type_def") "fields")))
      with (VBool (negb (truthy (eval java_cfg (recstate r) (EAttr (EVar "type_def") "fields"))))).
    rewrite eval_fields, truthy_fields, negb_involutive. cbn [truthy].
    unfold java_eq_head. destruct (no_fields r); sect_step; snorm; reflexivity. }
  rewrite Hfirst, Hrest. unfold java_eq_text. snorm. reflexivity.
Qed.

(* ---- Java ord section: compareTo ---- *)
Definition java_ord_head : list expr := Eval vm_compute in out_of (nth_stmt 0 java_ord_section).
Definition java_ord_tail : list expr := Eval vm_compute in out_of (nth_stmt 2 java_ord_section).
Lemma java_ord_section_shape :
  java_ord_section = SIf (ECmp "in" (EStr "ord") (EAttr (EVar "type_def") "deriving")) [SOut java_ord_head; java_cmp_loop; SOut java_ord_tail] [] [].
Proof. reflexivity. Qed.

Definition java_ord_text (r : recrec) : string :=
  ("    @Override" ++ String nl
   "    public int compareTo(" ++ r_java r ++ " other) {" ++ String nl
   "        int tempResult;" ++ String nl "" ++
   fold_right (fun f acc => (jcmp_block f ++ acc)%string) "" (r_fields r) ++
   "        return 0;" ++ String nl
   "    }" ++ String nl "")%string.

Theorem java_ord_section_renders (r : recrec) :
  exec java_cfg java_ord_section (recstate r) = (recstate r, if derives "ord" r then java_ord_text r else "").
Proof.
  rewrite java_ord_section_shape, exec_if0, eval_derives. cbn [truthy].
  destruct (derives "ord" r); [|reflexivity].
  rewrite execs_cons, exec_out. rewrite execs_cons, java_cmp_loop_renders.
  unfold java_ord_text, java_ord_head, java_ord_tail. sect_step. snorm. reflexivity.
Qed.
