(* Syntactic analyses over translated templates. *)
From Coq Require Import List String Ascii ZArith Bool.
From PDV Require Import Lib.StrUtil Jinja.Tir.
Import ListNotations.
Open Scope string_scope. Open Scope list_scope.

(* all constant text chunks of a template, in document order *)
Fixpoint expr_strings (e : expr) : list string :=
  match e with
  | EStr s => [s]
  | EConcat l => (fix go (l : list expr) := match l with [] => [] | x :: r => expr_strings x ++ go r end) l
  | ECond c t f => expr_strings t ++ match f with Some x => expr_strings x | None => [] end
  | _ => []
  end.

Fixpoint stmt_strings (s : stmt) : list string :=
  let go := (fix go (l : list stmt) := match l with [] => [] | x :: r => stmt_strings x ++ go r end) in
  match s with
  | SOut l => (fix goe (l : list expr) := match l with [] => [] | x :: r => expr_strings x ++ goe r end) l
  | SIf _ t elifs f => go t ++ (fix ge (l : list (expr * list stmt)) := match l with [] => [] | (_, b) :: r => go b ++ ge r end) elifs ++ go f
  | SFor _ _ _ b | SCallBlock _ b | SMacro _ _ _ b | SBlock _ b => go b
  | _ => []
  end.
Definition tmpl_strings (t : list stmt) : list string := flat_map stmt_strings t.

Fixpoint is_prefix (p s : string) : bool :=
  match p, s with
  | EmptyString, _ => true
  | String a p', String b s' => Ascii.eqb a b && is_prefix p' s'
  | _, _ => false
  end.
Fixpoint contains (p s : string) : bool :=
  is_prefix p s || match s with EmptyString => false | String _ r => contains p r end.
Definition tmpl_mentions (t : list stmt) (p : string) : bool := existsb (contains p) (tmpl_strings t).
