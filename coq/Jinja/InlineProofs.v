(* Facts about the macro expansion that do not depend on a particular template. *)
From Coq Require Import List String Ascii ZArith Bool Arith.
From PDV Require Import Lib.StrUtil Lang.Comment Marshal.Ident Jinja.Tir Jinja.Inline Jinja.Interp Jinja.InterpLemmas Jinja.FragFlags.
Import ListNotations.
Open Scope string_scope. Open Scope list_scope.

(* the expansion writes  {{ a }}{{ b }}  as two output statements: that prints the same text *)
Lemma execs_split_out g es : forall st, execs g (map (fun e => SOut [e]) es) st = (st, out_str g st es).
Proof.
  induction es as [|e r IH]; intros st; [now rewrite execs_nil|].
  cbn [map]. rewrite execs_cons, exec_out, IH. unfold out_str. cbn [fold_right]. now rewrite sapp_nil_r.
Qed.

(* without macros and without call blocks nothing is expanded: an output statement of plain expressions is only split *)
Definition plain_expr (e : expr) : bool :=
  match e with ECall _ _ _ | EConcat _ | ECond _ _ _ | EFilter _ (ECall _ _ _) _ _ => false | _ => true end.
Lemma out_expr_plain ms rec e : plain_expr e = true -> out_expr ms rec e = [SOut [e]].
Proof. destruct e; cbn; try reflexivity; try discriminate. destruct e; try reflexivity; discriminate. Qed.

Theorem inline_plain_output g ms rec es st : forallb plain_expr es = true ->
  execs g (one ms rec (SOut es)) st = exec g (SOut es) st.
Proof.
  intros H. cbn [one]. rewrite exec_out.
  assert (E : flat_map (out_expr ms rec) es = map (fun e => SOut [e]) es).
  { induction es as [|e r IH]; [reflexivity|]. cbn [forallb] in H. apply andb_true_iff in H as [H1 H2].
    cbn [flat_map map]. rewrite (out_expr_plain ms rec e H1), (IH H2). reflexivity. }
  rewrite E. apply execs_split_out.
Qed.

(* parameter binding: positional arguments first, then keywords, then the defaults of the last parameters *)
Example bind_params_example :
  bind_params ["method"; "with_types"] [EBool true] [EVar "m"] [] = [SSet "method" (EVar "m"); SSet "with_types" (EBool true)] /\
  bind_params ["method"; "with_types"] [EBool true] [EVar "m"] [("with_types", EBool false)] = [SSet "method" (EVar "m"); SSet "with_types" (EBool false)].
Proof. split; reflexivity. Qed.
