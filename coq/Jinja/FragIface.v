(* Render lemma for the method declarations of the C++ interface header: for EVERY method list (any parameter lists) the
   loop prints one declaration per IDL method, in order:  <prefix specifiers><return type> <name>(<type name, ...>)<postfix>;
   preceded by its doc comment / deprecation attribute.  The specifier strings and type strings are those of
   Marshal.TypeStr (tied by K-marshal); the method calls prefix_specifiers() / postfix_specifiers() enter through the
   environment under the key "name()" (Interp.call_key). *)
From Coq Require Import List String Ascii ZArith Bool Arith Lia.
From PDV Require Import Lib.StrUtil Lang.Comment Marshal.Ident Jinja.Tir Jinja.Interp Jinja.InterpLemmas Jinja.Slice
                        Gen.Templates Jinja.FragFlags Jinja.FragEnums Jinja.FragRecord.
Import ListNotations.
Open Scope string_scope. Open Scope list_scope.

Record cparam := mkcparam { cp_type : string; cp_name : string }.
Record cmethod := mkcmethod { cm_has_comment : bool; cm_comment : string; cm_depr_flag : bool; cm_depr : string;
                              cm_prefix : string; cm_type : string; cm_name : string; cm_params : list cparam; cm_postfix : string }.
Definition cparamv (p : cparam) : val := VObj [("cpp", VObj [("type_spec", VStr (cp_type p)); ("name", VStr (cp_name p))])].
Definition cmethodv (m : cmethod) : val :=
  VObj [("comment", if cm_has_comment m then VStr "c" else VNone);
        ("deprecated", VBool (cm_depr_flag m));
        ("parameters", VList (map cparamv (cm_params m)));
        ("cpp", VObj [("comment", VStr (cm_comment m)); ("deprecated", VStr (cm_depr m)); ("prefix_specifiers()", VStr (cm_prefix m));
                      ("type_spec", VStr (cm_type m)); ("name", VStr (cm_name m)); ("postfix_specifiers()", VStr (cm_postfix m))])].
Definition istate (ml : list cmethod) : state := mkst [("type_def", VObj [("methods", VList (map cmethodv ml))])] [].

Definition iface_loop : stmt := Eval vm_compute in get_loop "methods" 0 t_cpp_header_interface_jinja2_hpp.
Definition iface_body : list stmt := Eval vm_compute in body_of iface_loop.
Lemma iface_shape : iface_loop = SFor "method" (EAttr (EVar "type_def") "methods") None iface_body. Proof. reflexivity. Qed.
Definition param_loop : stmt := Eval vm_compute in nth 3 iface_body (SOther "missing").
Definition param_body : list stmt := Eval vm_compute in body_of param_loop.
Lemma param_shape : param_loop = SFor "parameter" (EAttr (EVar "method") "parameters") None param_body. Proof. reflexivity. Qed.

Definition param_item (p : cparam) (last : bool) : string := (cp_type p ++ " " ++ cp_name p ++ (if last then "" else ", "))%string.
Fixpoint params_text (l : list cparam) : string :=
  match l with [] => "" | p :: r => (param_item p (match r with [] => true | _ => false end) ++ params_text r)%string end.

(* the inner loop: parameters joined by ", "; it leaves the state alone whatever the surrounding bindings are *)
Lemma param_step st p idx last :
  for_step (execs cpp_cfg) "parameter" param_body (scope st) (cparamv p) idx last st = (st, param_item p last).
Proof.
  unfold for_step, param_body, param_item. destruct st as [sc ns].
  repeat (rewrite ?execs_cons, ?execs_nil, ?exec_out;
          cbn [out_str eval assoc upd String.eqb Ascii.eqb Bool.eqb truthy to_str scope nss bind attr_of loopv negb fold_right cparamv cp_type cp_name fst snd]).
  destruct last; cbn [negb truthy to_str]; snorm; reflexivity.
Qed.

Lemma params_loop_over st : forall l idx, loop_over (for_step (execs cpp_cfg) "parameter" param_body (scope st)) (map cparamv l) idx st = (st, params_text l).
Proof.
  induction l as [|p r IH]; intros idx; [reflexivity|].
  cbn [map loop_over].
  replace (match map cparamv r with [] => true | _ => false end) with (match r with [] => true | _ => false end) by (destruct r; reflexivity).
  rewrite param_step, IH. reflexivity.
Qed.

Definition method_decl (m : cmethod) : string :=
  ((if cm_has_comment m then "    " ++ indent_filter (comment_filter (Some "/**") (Some " */") " * " (cm_comment m)) ++ String nl "" else "") ++
   (if cm_depr_flag m then "    " ++ cm_depr m ++ String nl "" else "") ++
   "    " ++ cm_prefix m ++ cm_type m ++ " " ++ cm_name m ++ "(" ++ params_text (cm_params m) ++ ")" ++ cm_postfix m ++ ";" ++ String nl "")%string.

Lemma param_loop_here ml m lv :
  exec cpp_cfg param_loop (bind "loop" lv (bind "method" (cmethodv m) (istate ml)))
  = (bind "loop" lv (bind "method" (cmethodv m) (istate ml)), params_text (cm_params m)).
Proof.
  rewrite param_shape, exec_for. unfold for_items.
  replace (as_list (eval cpp_cfg (bind "loop" lv (bind "method" (cmethodv m) (istate ml))) (EAttr (EVar "method") "parameters")))
    with (map cparamv (cm_params m)) by reflexivity.
  apply params_loop_over.
Qed.

Ltac tstep_i :=
  repeat (rewrite ?execs_cons, ?execs_nil, ?exec_out, ?exec_if0;
          cbn [out_str eval assoc upd String.eqb Ascii.eqb Bool.eqb truthy to_str scope nss bind attr_of loopv negb
               fold_right as_list cmethodv istate call_key const_repr map app join
               cm_has_comment cm_comment cm_depr_flag cm_depr cm_prefix cm_type cm_name cm_params cm_postfix
               g_cstart g_cend g_cprefix cpp_cfg fst snd andb orb]).

Lemma method_step ml m idx last :
  for_step (execs cpp_cfg) "method" iface_body (scope (istate ml)) (cmethodv m) idx last (istate ml) = (istate ml, method_decl m).
Proof.
  pose proof (param_loop_here ml m (loopv idx (Nat.eqb idx 0) last)) as Hp. unfold param_loop in Hp.
  unfold for_step, iface_body, method_decl. tstep_i.
  destruct (cm_has_comment m); tstep_i; destruct (cm_depr_flag m); tstep_i; rewrite Hp; tstep_i; snorm; reflexivity.
Qed.

Lemma loop_over_const {A} (gv : A -> val) (f : val -> nat -> bool -> state -> state * string) (st : state) (h : A -> string) :
  (forall a idx last, f (gv a) idx last st = (st, h a)) ->
  forall l idx, loop_over f (map gv l) idx st = (st, concat "" (map h l)).
Proof.
  intros Hstep l. induction l as [|a r IH]; intros idx; [reflexivity|].
  cbn [map loop_over]. rewrite Hstep, IH. destruct r; cbn [map concat]; [now rewrite sapp_nil_r | reflexivity].
Qed.

(* one declaration per method, in declaration order, for every method list and every parameter list *)
Theorem iface_methods_render ml :
  exec cpp_cfg iface_loop (istate ml) = (istate ml, concat "" (map method_decl ml)).
Proof.
  rewrite iface_shape, exec_for. unfold for_items.
  replace (as_list (eval cpp_cfg (istate ml) (EAttr (EVar "type_def") "methods"))) with (map cmethodv ml) by reflexivity.
  apply (loop_over_const cmethodv). intros a idx last. apply method_step.
Qed.

(* a non-static method is virtual ... = 0, a static one is static; const / noexcept follow the IDL: with the specifier strings of
   Marshal.TypeStr the printed declaration of a method is fully determined by the IDL method *)
Example iface_example :
  method_decl (mkcmethod false "" false "" "virtual " "int32_t" "add" [mkcparam "int32_t" "a"; mkcparam "const std::string &" "b"] " const noexcept = 0")
  = ("    virtual int32_t add(int32_t a, const std::string & b) const noexcept = 0;" ++ String nl "")%string.
Proof. reflexivity. Qed.
