(* Render lemma for the Objective-C flags template (header/flags.jinja2.h): same statement as for C++ - for every flag
   list the loop prints one enumerator per flag whose value expression is the one of flag_enumerators; enumerator names
   carry the type name as prefix. *)
From Coq Require Import List String Ascii ZArith Bool Arith Lia.
From PDV Require Import Lib.StrUtil Lang.Comment Marshal.Ident Jinja.Tir Jinja.Interp Jinja.InterpLemmas Jinja.Slice
                        Lang.EnumBody Gen.Templates Jinja.FragFlags.
Import ListNotations.
Open Scope string_scope. Open Scope list_scope.

Definition objc_cfg : gencfg := mkgencfg None None "/// ".

Definition objc_flags_loop : stmt :=
  Eval vm_compute in match find_for_in "flags" t_objc_header_flags_jinja2_h with Some f => f | None => SOther "missing" end.
Definition objc_flags_body : list stmt :=
  Eval vm_compute in match objc_flags_loop with SFor _ _ _ b => b | _ => [] end.

Lemma objc_flags_loop_shape : objc_flags_loop = SFor "flag" (EAttr (EVar "type_def") "flags") None objc_flags_body.
Proof. reflexivity. Qed.

(* the comment test is on the rendered ObjC comment itself (non-empty string) *)
Definition oflagv (f : flagrec) : val :=
  VObj [("objc", VObj [("name", VStr (f_name f)); ("comment", if f_has_comment f then VStr (String "c" (f_comment f)) else VNone)]);
        ("none", VBool (f_none f)); ("all", VBool (f_all f))].

Section Render.
  Variable tn : string.
  Variable fl_all : list flagrec.

  Definition pname (f : flagrec) : string := (tn ++ f_name f)%string.
  Definition pnames : list string := map pname (filter ordinary fl_all).

  Definition osc0 : list (string * val) :=
    [("counter", VNs "counter"); ("type_def", VObj [("objc", VObj [("name", VStr tn)]); ("flags", VList (map oflagv fl_all))])].
  Definition omkstate (c : nat) : state := mkst osc0 [("counter", [("value", VInt (Z.of_nat c))])].

  Definition ovalue (f : flagrec) (c : nat) : vexpr := if f_none f then VZero else if f_all f then VOr pnames else VShift c.

  Definition oline (f : flagrec) (last : bool) (c : nat) : string :=
    ((if f_has_comment f
      then "    " ++ indent_filter (comment_filter None None "/// " (String "c" (f_comment f))) ++ String nl ""
      else "") ++
     "    " ++ pname f ++ " = " ++ print_vexpr (ovalue f c) ++ (if last then "" else ",") ++ String nl "")%string.
End Render.

Ltac tstep_o :=
  repeat (rewrite ?execs_cons, ?execs_nil, ?exec_out, ?exec_if0, ?exec_if1, ?exec_setns;
          cbn [out_str eval assoc upd String.eqb Ascii.eqb Bool.eqb truthy to_str scope nss bind attr_of loopv negb
               fold_right as_list oflagv f_name f_depr f_has_comment f_comment f_none f_all g_cstart g_cend g_cprefix objc_cfg
               fst snd andb orb]).

Lemma ofilter_ordinary_items st (l : list flagrec) :
  for_items objc_cfg "flag" (Some (EAnd (ENot (EAttr (EVar "flag") "none")) (ENot (EAttr (EVar "flag") "all")))) st (map oflagv l)
  = map oflagv (filter ordinary l).
Proof.
  unfold for_items. induction l as [|f r IH]; [reflexivity|].
  cbn [map filter]. rewrite IH. unfold ordinary.
  cbn [eval bind scope assoc String.eqb Ascii.eqb Bool.eqb attr_of oflagv truthy negb].
  destruct (f_none f), (f_all f); reflexivity.
Qed.

Definition oinner_body : list stmt :=
  [SOut [EConcat [EAttr (EAttr (EVar "type_def") "objc") "name"; EAttr (EAttr (EVar "flag") "objc") "name";
                  ECond (ENot (EAttr (EVar "loop") "last")) (EStr " | ") None]]].

Lemma ojoin_bar_fold tn (l : list flagrec) :
  fold_lines (fun (f : flagrec) (last : bool) (_ : unit) => (pname tn f ++ (if last then "" else " | "))%string) (fun _ u => u) l tt
  = join " | " (map (pname tn) l).
Proof.
  induction l as [|f r IH]; [reflexivity|]. cbn [fold_lines map]. rewrite IH.
  destruct r as [|f2 r'].
  - cbn [map join]. now rewrite !sapp_nil_r.
  - cbn [map]. rewrite join_cons_cons. now rewrite sapp_assoc.
Qed.

Lemma oinner_loop tn (fl_all : list flagrec) lv fv n :
  exec objc_cfg (SFor "flag" (EAttr (EVar "type_def") "flags")
                      (Some (EAnd (ENot (EAttr (EVar "flag") "none")) (ENot (EAttr (EVar "flag") "all")))) oinner_body)
       (bind "loop" lv (bind "flag" fv (mkst (osc0 tn fl_all) n)))
  = (bind "loop" lv (bind "flag" fv (mkst (osc0 tn fl_all) n)), join " | " (pnames tn fl_all)).
Proof.
  set (st := bind "loop" lv (bind "flag" fv (mkst (osc0 tn fl_all) n))).
  rewrite exec_for.
  replace (as_list (eval objc_cfg st (EAttr (EVar "type_def") "flags"))) with (map oflagv fl_all) by reflexivity.
  rewrite ofilter_ordinary_items.
  destruct (loop_over_map oflagv (for_step (execs objc_cfg) "flag" oinner_body (scope st)) (fun (_ : unit) s => s = st)
              (fun f last _ => (pname tn f ++ (if last then "" else " | "))%string) (fun _ u => u)) with
      (l := filter ordinary fl_all) (idx := 0) (st := st) (s := tt) as (st' & E & Hinv).
  - intros a idx last s0 u ->. exists st. split; [|reflexivity].
    unfold for_step, oinner_body, st, osc0. tstep_o. unfold pname. destruct last; cbn [negb truthy to_str]; snorm; reflexivity.
  - reflexivity.
  - rewrite E, Hinv. f_equal. unfold pnames. apply ojoin_bar_fold.
Qed.

Lemma objc_step tn fl_all f idx last c :
  for_step (execs objc_cfg) "flag" objc_flags_body (osc0 tn fl_all) (oflagv f) idx last (omkstate tn fl_all c)
  = (omkstate tn fl_all (next f c), oline tn fl_all f last c).
Proof.
  unfold for_step, objc_flags_body, omkstate, oline, ovalue, next, ordinary, osc0, pname.
  tstep_o.
  destruct (f_has_comment f); tstep_o;
  destruct (f_none f); tstep_o.
  all: try (destruct (f_all f); tstep_o).
  all: try (fold (osc0 tn fl_all);
            change [SOut [EConcat [EAttr (EAttr (EVar "type_def") "objc") "name"; EAttr (EAttr (EVar "flag") "objc") "name";
                                   ECond (ENot (EAttr (EVar "loop") "last")) (EStr " | ") None]]] with oinner_body;
            rewrite oinner_loop; unfold osc0; tstep_o).
  all: destruct last; tstep_o; cbn [print_vexpr negb]; rewrite ?z_to_str_of_nat; snorm; try reflexivity.
  all: try (repeat f_equal; lia).
Qed.

Fixpoint olines (tn : string) (fl_all fl : list flagrec) (c : nat) : string :=
  match fl with
  | [] => ""
  | f :: r => (oline tn fl_all f (match r with [] => true | _ => false end) c ++ olines tn fl_all r (next f c))%string
  end.

Lemma olines_fold tn fl_all fl c :
  fold_lines (fun f last c => oline tn fl_all f last c) next fl c = olines tn fl_all fl c.
Proof. revert c. induction fl as [|f r IH]; intros c; [reflexivity|]. cbn [fold_lines olines]. now rewrite IH. Qed.

Theorem objc_flags_loop_renders tn (fl : list flagrec) :
  exists c', exec objc_cfg objc_flags_loop (omkstate tn fl 0) = (omkstate tn fl c', olines tn fl fl 0).
Proof.
  rewrite objc_flags_loop_shape, exec_for. unfold for_items.
  replace (as_list (eval objc_cfg (omkstate tn fl 0) (EAttr (EVar "type_def") "flags"))) with (map oflagv fl) by reflexivity.
  destruct (loop_over_map oflagv (for_step (execs objc_cfg) "flag" objc_flags_body (scope (omkstate tn fl 0)))
              (fun c s => s = omkstate tn fl c) (fun f last c => oline tn fl f last c) next) with
      (l := fl) (idx := 0) (st := omkstate tn fl 0) (s := 0) as (st' & E & Hinv).
  - intros a idx last s0 c ->. exists (omkstate tn fl (next a c)). split; [|reflexivity]. apply objc_step.
  - reflexivity.
  - rewrite E, Hinv, olines_fold. eexists. reflexivity.
Qed.

(* the value expressions are those of flag_enumerators over the prefixed names: same bit numbering as C++ *)
Definition prefixed (tn : string) (f : flagrec) : flagrec :=
  mkflagrec (tn ++ f_name f) (f_depr f) (f_has_comment f) (f_comment f) (f_none f) (f_all f).

Theorem objc_values_are_spec tn fl_all fl c :
  map (fun fc => (pname tn (fst fc), ovalue tn fl_all (fst fc) (snd fc)))
      ((fix go (l : list flagrec) (c : nat) : list (flagrec * nat) := match l with [] => [] | f :: r => (f, c) :: go r (next f c) end) fl c)
  = flag_enumerators (pnames tn fl_all) (map (prefixed tn) fl) c.
Proof.
  revert c. induction fl as [|f r IH]; intros c; [reflexivity|].
  cbn [map flag_enumerators prefixed f_name f_none f_all]. unfold ovalue at 1, pname at 1. cbn [fst snd]. f_equal.
  now rewrite IH.
Qed.
