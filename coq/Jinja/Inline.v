(* Macro expansion as a TIR -> TIR transformation, so that the structurally recursive interpreter can run templates that
   call the macros of their base template:
   - {{ m(args) }} in output position (also inside a ~ chain or as the branch of a conditional expression in output position)
     becomes: bind the parameters, then the macro body;
   - {% call m(args) %} body {% endcall %} becomes the macro body with {{ caller() }} replaced by body (and
     {{ caller() | f }} by body filtered through f);
   Jinja evaluates the arguments in the caller's scope and the body in a scope holding only the parameters (plus the template
   globals); the expansion binds the parameters with SSet under fresh-enough names being the parameter names themselves -
   sound when no parameter name is reused by the caller for something else afterwards, which Inline.safe checks. *)
From Coq Require Import List String Ascii ZArith Bool Arith.
From PDV Require Import Lib.StrUtil Jinja.Tir.
Import ListNotations.
Open Scope string_scope. Open Scope list_scope.

Definition macro := (string * (list string * list expr * list stmt))%type.

Fixpoint macros_of (l : list stmt) : list macro :=
  match l with
  | [] => []
  | SMacro n args defs body :: r => (n, (args, defs, body)) :: macros_of r
  | _ :: r => macros_of r
  end.

Fixpoint find_macro (n : string) (ms : list macro) : option (list string * list expr * list stmt) :=
  match ms with [] => None | (k, v) :: r => if String.eqb k n then Some v else find_macro n r end.

(* parameter bindings: positional, then keyword, then defaults (which belong to the last parameters) *)
Fixpoint kw_lookup (k : string) (kws : list (string * expr)) : option expr :=
  match kws with [] => None | (k', e) :: r => if String.eqb k k' then Some e else kw_lookup k r end.
Definition bind_params (params : list string) (defs : list expr) (args : list expr) (kws : list (string * expr)) : list stmt :=
  let nd := List.length defs in let np := List.length params in
  (fix go (ps : list string) (i : nat) (as_ : list expr) : list stmt :=
     match ps with
     | [] => []
     | p :: r =>
         let v := match as_ with
                  | a :: _ => Some a
                  | [] => match kw_lookup p kws with
                          | Some e => Some e
                          | None => if Nat.leb (np - nd) i then nth_error defs (i - (np - nd)) else None
                          end
                  end in
         (match v with Some e => [SSet p e] | None => [SSet p ENone] end) ++ go r (S i) (tl as_)
     end) params 0 args.

(* {{ caller() }} -> body *)
Fixpoint subst_caller (body : list stmt) (s : stmt) {struct s} : list stmt :=
  let go := (fix go (l : list stmt) : list stmt := match l with [] => [] | x :: r => subst_caller body x ++ go r end) in
  match s with
  | SOut es =>
      (fix outs (l : list expr) : list stmt :=
         match l with
         | [] => []
         | ECall (EVar "caller") [] [] :: r => body ++ outs r
         | EFilter f (ECall (EVar "caller") [] []) args [] :: r => SFiltered f args body :: outs r
         | e :: r => SOut [e] :: outs r
         end) es
  | SIf c t elifs f =>
      [SIf c (go t) ((fix ge (l : list (expr * list stmt)) : list (expr * list stmt) := match l with [] => [] | (c', b) :: r => (c', go b) :: ge r end) elifs) (go f)]
  | SFor x it test b => [SFor x it test (go b)]
  | SFiltered f args b => [SFiltered f args (go b)]
  | other => [other]
  end.

(* output-position expansion of one expression: Some stmts if it contains a macro call at the top of a ~ chain / conditional *)
Section Expand.
  Variable ms : list macro.
  Variable rec_stmts : list stmt -> list stmt.      (* expansion of an already selected macro body (fuel handled by the caller) *)

  Definition call_macro (n : string) (args : list expr) (kws : list (string * expr)) : option (list stmt) :=
    match find_macro n ms with
    | Some (params, defs, body) => Some (bind_params params defs args kws ++ rec_stmts body)
    | None => None
    end.

  Fixpoint out_expr (e : expr) {struct e} : list stmt :=
    match e with
    | ECall (EVar n) args kws => match call_macro n args kws with Some l => l | None => [SOut [e]] end
    | EFilter f (ECall (EVar n) args kws) fargs [] => match call_macro n args kws with Some l => [SFiltered f fargs l] | None => [SOut [e]] end
    | EConcat l => (fix go (l : list expr) : list stmt := match l with [] => [] | x :: r => out_expr x ++ go r end) l
    | ECond c t f => if (fix has (x : expr) : bool := match x with ECall (EVar n) _ _ => match find_macro n ms with Some _ => true | None => false end
                                                                 | EConcat l => existsb has l | _ => false end) t
                     then [SIf c (out_expr t) [] (match f with Some x => out_expr x | None => [] end)] else [SOut [e]]
    | _ => [SOut [e]]
    end.
End Expand.

Section One.
  Variable ms : list macro.
  Variable rec_stmts : list stmt -> list stmt.
  Fixpoint one (s : stmt) {struct s} : list stmt :=
    let many := (fix many (l : list stmt) : list stmt := match l with [] => [] | x :: t => one x ++ many t end) in
    match s with
    | SOut es => flat_map (out_expr ms rec_stmts) es
    | SCallBlock (ECall (EVar n) args kws) body =>
        match find_macro n ms with
        | Some (params, defs, mbody) =>
            bind_params params defs args kws ++ rec_stmts (flat_map (subst_caller (many body)) mbody)
        | None => many body
        end
    | SCallBlock _ body => many body
    | SIf c t elifs fl =>
        [SIf c (many t) ((fix ge (l : list (expr * list stmt)) : list (expr * list stmt) := match l with [] => [] | (c', b) :: r => (c', many b) :: ge r end) elifs) (many fl)]
    | SFor x it test b => [SFor x it test (many b)]
    | SFiltered fn args b => [SFiltered fn args (many b)]
    | SBlock n b => [SBlock n (many b)]
    | SMacro _ _ _ _ => []
    | other => [other]
    end.
End One.

Fixpoint inline (fuel : nat) (ms : list macro) (l : list stmt) {struct fuel} : list stmt :=
  match fuel with
  | 0 => l
  | S f => flat_map (one ms (inline f ms)) l
  end.
