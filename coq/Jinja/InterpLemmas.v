(* Unfolding equations for the interpreter (so that exec can be opaque in proofs), string normalisation lemmas and the
   generic loop lemma used by the render lemmas. *)
From Coq Require Import List String Ascii ZArith Bool.
From PDV Require Import Lib.StrUtil Lang.Comment Marshal.Ident Jinja.Tir Jinja.Interp.
Import ListNotations.
Open Scope string_scope. Open Scope list_scope.

Section Eqs.
  Variable g : gencfg.

  Lemma execs_nil st : execs g [] st = (st, "").
  Proof. reflexivity. Qed.
  Lemma execs_cons x r st :
    execs g (x :: r) st = let '(st1, o1) := exec g x st in let '(st2, o2) := execs g r st1 in (st2, (o1 ++ o2)%string).
  Proof. reflexivity. Qed.
  Lemma exec_out l st : exec g (SOut l) st = (st, out_str g st l).
  Proof. reflexivity. Qed.
  Lemma exec_if0 c t f st : exec g (SIf c t [] f) st = if truthy (eval g st c) then execs g t st else execs g f st.
  Proof. reflexivity. Qed.
  Lemma exec_if1 c t c2 b2 f st :
    exec g (SIf c t [(c2, b2)] f) st =
    if truthy (eval g st c) then execs g t st else if truthy (eval g st c2) then execs g b2 st else execs g f st.
  Proof. reflexivity. Qed.
  Lemma exec_for x e filt body st :
    exec g (SFor x e filt body) st =
    loop_over (for_step (execs g) x body (scope st)) (for_items g x filt st (as_list (eval g st e))) 0 st.
  Proof. reflexivity. Qed.
  Lemma exec_setns n a e st :
    exec g (SSetNs n a e) st =
    (mkst (scope st) (upd n (upd a (eval g st e) (match assoc n (nss st) with Some fs => fs | None => [] end)) (nss st)), "").
  Proof. reflexivity. Qed.
End Eqs.

Lemma sapp_nil_r (s : string) : (s ++ "")%string = s.
Proof. apply app_nil_r_s. Qed.
Lemma sapp_assoc (a b c : string) : ((a ++ b) ++ c)%string = (a ++ (b ++ c))%string.
Proof. apply app_assoc_s. Qed.

(* one lemma for every loop: if each iteration turns an abstract accumulator s into nx a s, keeps the invariant between
   accumulator and interpreter state, and prints h a last s, the whole loop prints the fold of h *)
Section Loop.
  Context {A Acc : Type}.
  Variable gv : A -> val.
  Variable f : val -> nat -> bool -> state -> state * string.
  Variable inv : Acc -> state -> Prop.
  Variable h : A -> bool -> Acc -> string.
  Variable nx : A -> Acc -> Acc.

  Fixpoint fold_lines (l : list A) (s : Acc) : string :=
    match l with
    | [] => ""
    | a :: r => (h a (match r with [] => true | _ => false end) s ++ fold_lines r (nx a s))%string
    end.
  Fixpoint fold_state (l : list A) (s : Acc) : Acc :=
    match l with [] => s | a :: r => fold_state r (nx a s) end.

  Hypothesis step : forall a idx last st s, inv s st -> exists st', f (gv a) idx last st = (st', h a last s) /\ inv (nx a s) st'.

  Lemma loop_over_map (l : list A) : forall idx st s, inv s st ->
    exists st', loop_over f (map gv l) idx st = (st', fold_lines l s) /\ inv (fold_state l s) st'.
  Proof.
    induction l as [|a r IH]; intros idx st s Hi.
    - exists st. now split.
    - cbn [map loop_over].
      replace (match map gv r with [] => true | _ => false end) with (match r with [] => true | _ => false end) by (destruct r; reflexivity).
      destruct (step a idx (match r with [] => true | _ => false end) st s Hi) as (st1 & E1 & Hi1). rewrite E1.
      destruct (IH (S idx) st1 (nx a s) Hi1) as (st2 & E2 & Hi2). rewrite E2.
      exists st2. split; [reflexivity | exact Hi2].
  Qed.
End Loop.
