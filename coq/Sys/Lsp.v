(* Model of pydjinni_language_server/language_server.py: validate() and the request handlers as a state machine over
   the per-document caches.  The front end enters as a function front_of : text -> fout (what a validation of that text
   yields: the diagnostics to publish and the view the caches are rebuilt from, or an internal failure). *)
From Coq Require Import List String Bool Arith.
Import ListNotations.
Open Scope string_scope. Open Scope list_scope.

Section Lsp.
  Variable text : Type.

  Definition diag_t := (nat * nat * nat)%type.                 (* severity, line, column *)
  Definition answer_t := option (string * nat).                (* go-to-definition: target file, line *)

  Record view := mkview {
    v_diags : list diag_t;                                     (* errors located in the document + deprecation warnings *)
    v_syms : list string;                                      (* document symbols *)
    v_defs : list (nat * nat * answer_t)                       (* (row, col) -> answer, for the positions covered by references *)
  }.

  Inductive fout := FView (v : view) | FCrash.                 (* FCrash: an exception validate() does not handle *)
  Variable front_of : text -> fout.

  Record st := mkst {
    docs : list (string * text);                               (* pygls workspace *)
    caches : list (string * view);                             (* ast / type_def / hover caches of one uri, rebuilt together *)
    published : list (string * list diag_t);                   (* last publishDiagnostics per uri *)
    errlog : nat                                               (* entries written by @error_logger *)
  }.

  Definition init : st := mkst [] [] [] 0.

  Fixpoint get {A} (k : string) (l : list (string * A)) : option A :=
    match l with [] => None | (k', v) :: t => if String.eqb k k' then Some v else get k t end.
  Fixpoint put {A} (k : string) (v : A) (l : list (string * A)) : list (string * A) :=
    match l with [] => [(k, v)] | (k', v') :: t => if String.eqb k k' then (k, v) :: t else (k', v') :: put k v t end.
  Fixpoint del {A} (k : string) (l : list (string * A)) : list (string * A) :=
    match l with [] => [] | (k', v') :: t => if String.eqb k k' then del k t else (k', v') :: del k t end.

  Inductive ev :=
    | Open (u : string) (t : text) | Change (u : string) (t : text) | Close (u : string)
    | GoToDef (u : string) (row col : nat) | Symbols (u : string).

  Inductive out :=
    | OPublished (d : list diag_t)         (* this event published these diagnostics for its uri *)
    | OFailed                              (* the handler ended in the error logger *)
    | OAnswer (a : answer_t) | OSymbols (s : option (list string)) | ONone.

  (* validate(ls, uri) *)
  Definition validate (u : string) (t : text) (s : st) : st * out :=
    match front_of t with
    | FView v => (mkst (docs s) (put u v (caches s)) (put u (v_diags v) (published s)) (errlog s), OPublished (v_diags v))
    | FCrash => (mkst (docs s) (caches s) (published s) (S (errlog s)), OFailed)
    end.

  Fixpoint find_def (row col : nat) (l : list (nat * nat * answer_t)) : answer_t :=
    match l with
    | [] => None
    | (r, c, a) :: t => if Nat.eqb r row && Nat.eqb c col then a else find_def row col t
    end.

  Definition step (s : st) (e : ev) : st * out :=
    match e with
    | Open u t | Change u t => validate u t (mkst (put u t (docs s)) (caches s) (published s) (errlog s))
    | Close u => (mkst (del u (docs s)) (del u (caches s)) (published s) (errlog s), ONone)
    | GoToDef u row col =>
        (s, OAnswer (match get u (caches s) with Some v => find_def row col (v_defs v) | None => None end))
    | Symbols u => (s, OSymbols (option_map v_syms (get u (caches s))))
    end.

  Fixpoint run (s : st) (es : list ev) : st * list out :=
    match es with
    | [] => (s, [])
    | e :: r => let '(s1, o) := step s e in let '(s2, os) := run s1 r in (s2, o :: os)
    end.
End Lsp.
