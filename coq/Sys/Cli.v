(* Model of cli.main()'s exit-status mapping and of the operation sequence a chained `generate` invocation performs. *)
From Coq Require Import List String Bool Arith.
From PDV Require Import Gen.ReturnCodes.
Import ListNotations.
Open Scope string_scope. Open Scope list_scope.

(* how the pipeline behind cli() ended *)
Inductive outcome :=
  | Success
  | AppExc (cls : string)            (* a single ApplicationException *)
  | AppList (clss : list string).    (* ApplicationExceptionList, in the order the errors were reported *)

Fixpoint code_of (cls : string) (tbl : list (string * nat * string)) : option nat :=
  match tbl with
  | [] => None
  | (n, c, _) :: r => if String.eqb cls n then Some c else code_of cls r
  end.

(* main(): except ApplicationException: exit(e.code); except ApplicationExceptionList: exit(e.items[0].code) *)
Definition exit_status (tbl : list (string * nat * string)) (o : outcome) : option nat :=
  match o with
  | Success => Some 0
  | AppExc c => code_of c tbl
  | AppList [] => None                (* IndexError: an empty list is never raised by the pipeline *)
  | AppList (c :: _) => code_of c tbl
  end.

(* the table has a positive code for every class, and the codes identify the documented classes *)
Definition codes_positive (tbl : list (string * nat * string)) : bool :=
  forallb (fun e => Nat.ltb 0 (snd (fst e))) tbl.

Fixpoint nat_mem (n : nat) (l : list nat) : bool := match l with [] => false | x :: r => Nat.eqb n x || nat_mem n r end.
Fixpoint nodup_nat (l : list nat) : bool := match l with [] => true | x :: r => negb (nat_mem x r) && nodup_nat r end.
Definition codes_distinct (tbl : list (string * nat * string)) : bool := nodup_nat (map (fun e => snd (fst e)) tbl).

Fixpoint doc_of (c : nat) (t : list (nat * string)) : option string :=
  match t with [] => None | (n, d) :: r => if Nat.eqb c n then Some d else doc_of c r end.
Definition documented (tbl : list (string * nat * string)) (docs : list (nat * string)) : bool :=
  forallb (fun e => match doc_of (snd (fst e)) docs with Some d => String.eqb d (snd e) | None => false end) tbl.

(* ---- the operation sequence of `pydjinni [-c f] [-o ..]* generate [--clean] idl t1 .. tn` and of the documented
        API chain configure().parse(idl).generate(t1)...generate(tn).write_processed_files() ---- *)
Inductive op := Configure | Parse | Generate (t : string) (clean : bool) | WriteReport.

(* click: group callback cli() -> group callback generate() -> one sub-command per target -> result callback *)
Definition cli_ops (clean : bool) (ts : list string) : list op :=
  [Configure; Parse] ++ map (fun t => Generate t clean) ts ++ [WriteReport].

Definition api_ops (clean : bool) (ts : list string) : list op :=
  Configure :: Parse :: fold_right (fun t acc => Generate t clean :: acc) [WriteReport] ts.

(* stage outcomes from an oracle: the first failing stage decides; later stages do not run *)
Fixpoint run_ops (ops : list op) (fails : op -> option outcome) : outcome * list op :=
  match ops with
  | [] => (Success, [])
  | o :: rest =>
      match fails o with
      | Some e => (e, [o])
      | None => let '(r, done) := run_ops rest fails in (r, o :: done)
      end
  end.
