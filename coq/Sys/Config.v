(* Model of the configuration merge: api.combine_into, cli.parse_option, the folding of several -o options and
   of options over the file tree (api.configure).  Python dicts are association lists with unique keys. *)
From Coq Require Import List String Ascii Bool Arith.
From PDV Require Import Lib.StrUtil.
Import ListNotations.
Open Scope string_scope. Open Scope list_scope.

Inductive cfg :=
  | Leaf (v : string)                 (* any scalar, by its text *)
  | LList (vs : list string)          (* a list of scalars *)
  | Node (kvs : list (string * cfg)). (* a mapping *)

Fixpoint assoc (k : string) (l : list (string * cfg)) : option cfg :=
  match l with
  | [] => None
  | (k', v) :: t => if String.eqb k k' then Some v else assoc k t
  end.

(* combined[k] = v : replace in place or append *)
Fixpoint set (k : string) (v : cfg) (l : list (string * cfg)) : list (string * cfg) :=
  match l with
  | [] => [(k, v)]
  | (k', v') :: t => if String.eqb k k' then (k, v) :: t else (k', v') :: set k v t
  end.

Definition sub_of (o : option cfg) : list (string * cfg) :=
  match o with Some (Node cs) => cs | _ => [] end.

(* combine_into(d, combined) after the fix: a mapping override replaces a non-mapping value *)
Fixpoint combine (d : cfg) (c : list (string * cfg)) {struct d} : list (string * cfg) :=
  match d with
  | Node dkvs =>
      (fix go (l : list (string * cfg)) (c : list (string * cfg)) {struct l} : list (string * cfg) :=
         match l with
         | [] => c
         | (k, v) :: rest =>
             go rest (set k (match v with
                             | Node _ => Node (combine v (sub_of (assoc k c)))
                             | _ => v
                             end) c)
         end) dkvs c
  | _ => c
  end.

Definition merge_val (v : cfg) (old : option cfg) : cfg :=
  match v with Node _ => Node (combine v (sub_of old)) | _ => v end.

Fixpoint go (l : list (string * cfg)) (c : list (string * cfg)) : list (string * cfg) :=
  match l with
  | [] => c
  | (k, v) :: rest => go rest (set k (merge_val v (assoc k c)) c)
  end.

Fixpoint lookup (p : list string) (c : cfg) : option cfg :=
  match p with
  | [] => Some c
  | k :: rest =>
      match c with
      | Node kvs => match assoc k kvs with Some c' => lookup rest c' | None => None end
      | _ => None
      end
  end.

Definition is_node (c : cfg) : bool := match c with Node _ => true | _ => false end.

(* ---- cli.parse_option ---- *)
Fixpoint split_first (c : ascii) (s : string) : option (string * string) :=
  match s with
  | EmptyString => None
  | String a rest =>
      if Ascii.eqb a c then Some ("", rest)
      else match split_first c rest with
           | Some (l, r) => Some (String a l, r)
           | None => None
           end
  end.

Fixpoint last_char (s : string) : option ascii :=
  match s with
  | EmptyString => None
  | String a EmptyString => Some a
  | String _ rest => last_char rest
  end.

Fixpoint drop_last (s : string) : string :=
  match s with
  | EmptyString => ""
  | String a EmptyString => ""
  | String a rest => String a (drop_last rest)
  end.

(* value[1:-1] *)
Definition middle (s : string) : string := drop_last (drop1 s).

Definition parse_value (v : string) : cfg :=
  match v, last_char v with
  | String "["%char _, Some "]"%char => LList (split_on ","%char (middle v))
  | _, _ => Leaf v
  end.

Fixpoint singleton (keys : list string) (v : cfg) : cfg :=
  match keys with
  | [] => v
  | k :: rest => Node [(k, singleton rest v)]
  end.

(* None = ConfigurationException (no '=' in the option) *)
Definition parse_option (s : string) : option cfg :=
  match split_first "="%char s with
  | None => None
  | Some (kl, v) => Some (singleton (split_on dot kl) (parse_value v))
  end.

(* cli(): options_dict = {}; for value in option: combine_into(parse_option(value), options_dict) *)
Fixpoint fold_options (opts : list string) (acc : list (string * cfg)) : option (list (string * cfg)) :=
  match opts with
  | [] => Some acc
  | o :: rest =>
      match parse_option o with
      | None => None
      | Some d => fold_options rest (combine d acc)
      end
  end.

(* api.configure: combine_into(options, config_dict) *)
Definition effective (file options : list (string * cfg)) : list (string * cfg) :=
  combine (Node options) file.

(* keys unique at every level: what a Python dict guarantees *)
Fixpoint wf (c : cfg) : Prop :=
  match c with
  | Node kvs => NoDup (map fst kvs) /\
      (fix all (l : list (string * cfg)) : Prop := match l with [] => True | (_, v) :: t => wf v /\ all t end) kvs
  | _ => True
  end.

(* flattening for the correspondence: every path to a scalar, list or empty mapping *)
Inductive leafv := LV (s : string) | LL (l : list string) | LE.
Fixpoint flatten (pre : list string) (c : cfg) : list (list string * leafv) :=
  match c with
  | Leaf v => [(pre, LV v)]
  | LList l => [(pre, LL l)]
  | Node [] => [(pre, LE)]
  | Node kvs =>
      (fix fl (l : list (string * cfg)) := match l with [] => [] | (k, v) :: t => flatten (pre ++ [k]) v ++ fl t end) kvs
  end.
