(* Model of src/pydjinni/file/file_reader_writer.py (FileReaderWriter) as a state machine, with an abstract file
   system so that overwrites are visible, and of the report written by write_processed_files. *)
From Coq Require Import List String Bool Arith.
Import ListNotations.
Open Scope string_scope. Open Scope list_scope.

Inductive wop :=
  | ReadIdl (p : string)                        (* read_idl(filename) *)
  | ReadExt (p : string)                        (* read_external_type(filename) *)
  | SetupInc (key dir : string)                 (* setup_include_dir *)
  | SetupSrc (key dir : string)                 (* setup_source_dir *)
  | WriteHeader (key path content : string)     (* write_header: _write + report + used key *)
  | WriteSource (key path content : string)
  | CopyHeader (key path : string)              (* one file of copy_header_directory *)
  | CopySource (key path : string).

Record krep := mkkrep { k_inc : string; k_headers : list string; k_src : string; k_sources : list string }.

Record wst := mkwst {
  w_idl : list string;                 (* processed_files.parsed.idl *)
  w_ext : list string;                 (* processed_files.parsed.external_types *)
  w_gen : list (string * krep);        (* processed_files.generated.<key> *)
  w_used : list string;                (* _used_keys *)
  w_files : list (string * string);    (* abstract file system: path -> content, last write wins *)
  w_log : list (string * string)       (* every write in order (path, content) *)
}.

Definition init (keys : list string) : wst :=
  mkwst [] [] (map (fun k => (k, mkkrep "." [] "." [])) keys) [] [] [].

Fixpoint upd_key (k : string) (f : krep -> krep) (g : list (string * krep)) : list (string * krep) :=
  match g with
  | [] => []
  | (k', r) :: t => if String.eqb k k' then (k', f r) :: t else (k', r) :: upd_key k f t
  end.

Fixpoint get_key (k : string) (g : list (string * krep)) : option krep :=
  match g with [] => None | (k', r) :: t => if String.eqb k k' then Some r else get_key k t end.

Fixpoint fs_set (p c : string) (fs : list (string * string)) : list (string * string) :=
  match fs with
  | [] => [(p, c)]
  | (p', c') :: t => if String.eqb p p' then (p, c) :: t else (p', c') :: fs_set p c t
  end.

Definition add_header (p : string) (r : krep) := mkkrep (k_inc r) (k_headers r ++ [p]) (k_src r) (k_sources r).
Definition add_source (p : string) (r : krep) := mkkrep (k_inc r) (k_headers r) (k_src r) (k_sources r ++ [p]).

Definition step (s : wst) (o : wop) : wst :=
  match o with
  | ReadIdl p => mkwst (w_idl s ++ [p]) (w_ext s) (w_gen s) (w_used s) (w_files s) (w_log s)
  | ReadExt p => mkwst (w_idl s) (w_ext s ++ [p]) (w_gen s) (w_used s) (w_files s) (w_log s)
  | SetupInc k d => mkwst (w_idl s) (w_ext s) (upd_key k (fun r => mkkrep d (k_headers r) (k_src r) (k_sources r)) (w_gen s)) (w_used s) (w_files s) (w_log s)
  | SetupSrc k d => mkwst (w_idl s) (w_ext s) (upd_key k (fun r => mkkrep (k_inc r) (k_headers r) d (k_sources r)) (w_gen s)) (w_used s) (w_files s) (w_log s)
  | WriteHeader k p c => mkwst (w_idl s) (w_ext s) (upd_key k (add_header p) (w_gen s)) (w_used s ++ [k]) (fs_set p c (w_files s)) (w_log s ++ [(p, c)])
  | WriteSource k p c => mkwst (w_idl s) (w_ext s) (upd_key k (add_source p) (w_gen s)) (w_used s ++ [k]) (fs_set p c (w_files s)) (w_log s ++ [(p, c)])
  | CopyHeader k p => mkwst (w_idl s) (w_ext s) (upd_key k (add_header p) (w_gen s)) (w_used s ++ [k]) (fs_set p "<copied>" (w_files s)) (w_log s ++ [(p, "<copied>")])
  | CopySource k p => mkwst (w_idl s) (w_ext s) (upd_key k (add_source p) (w_gen s)) (w_used s ++ [k]) (fs_set p "<copied>" (w_files s)) (w_log s ++ [(p, "<copied>")])
  end.

Definition run (ops : list wop) (s : wst) : wst := fold_left step ops s.

Definition mem (k : string) (l : list string) : bool := existsb (String.eqb k) l.

(* write_processed_files: sections of keys that were never used are removed *)
Definition report (s : wst) : list string * list string * list (string * krep) :=
  (w_idl s, w_ext s, filter (fun kr => mem (fst kr) (w_used s)) (w_gen s)).

(* what the op sequence wrote for a key, in order *)
Definition headers_of (k : string) (ops : list wop) : list string :=
  flat_map (fun o => match o with
                     | WriteHeader k' p _ | CopyHeader k' p => if String.eqb k k' then [p] else []
                     | _ => []
                     end) ops.
Definition sources_of (k : string) (ops : list wop) : list string :=
  flat_map (fun o => match o with
                     | WriteSource k' p _ | CopySource k' p => if String.eqb k k' then [p] else []
                     | _ => []
                     end) ops.
Definition wrote (k : string) (ops : list wop) : bool :=
  existsb (fun o => match o with
                    | WriteHeader k' _ _ | CopyHeader k' _ | WriteSource k' _ _ | CopySource k' _ => String.eqb k k'
                    | _ => false
                    end) ops.
Definition idl_of (ops : list wop) : list string := flat_map (fun o => match o with ReadIdl p => [p] | _ => [] end) ops.
Definition ext_of (ops : list wop) : list string := flat_map (fun o => match o with ReadExt p => [p] | _ => [] end) ops.
Definition written_paths (ops : list wop) : list string :=
  flat_map (fun o => match o with
                     | WriteHeader _ p _ | WriteSource _ p _ | CopyHeader _ p | CopySource _ p => [p]
                     | _ => []
                     end) ops.
