From Coq Require Import List String Bool Arith.
From PDV Require Import Sys.Writer.
Import ListNotations.
Open Scope string_scope. Open Scope list_scope.

Lemma get_upd_same k f g r : get_key k g = Some r -> get_key k (upd_key k f g) = Some (f r).
Proof.
  induction g as [|[k' r'] t IH]; cbn; [discriminate|].
  destruct (String.eqb_spec k k') as [->|Hne]; cbn.
  - intros [= ->]. now rewrite String.eqb_refl.
  - destruct (String.eqb_spec k k'); [contradiction | exact IH].
Qed.

Lemma get_upd_other k k' f g : k' <> k -> get_key k' (upd_key k f g) = get_key k' g.
Proof.
  intros Hne. induction g as [|[k0 r0] t IH]; cbn; [reflexivity|].
  destruct (String.eqb_spec k k0) as [->|H0]; cbn.
  - destruct (String.eqb_spec k' k0); [contradiction | reflexivity].
  - destruct (String.eqb_spec k' k0); [reflexivity | exact IH].
Qed.

Lemma get_upd_none k k' f g : get_key k' g = None -> get_key k' (upd_key k f g) = None.
Proof.
  induction g as [|[k0 r0] t IH]; cbn; [reflexivity|].
  destruct (String.eqb_spec k' k0) as [->|H0]; [discriminate|]. intros H.
  destruct (String.eqb_spec k k0) as [->|H1]; cbn.
  - destruct (String.eqb_spec k' k0); [contradiction | exact H].
  - destruct (String.eqb_spec k' k0); [contradiction | now apply IH].
Qed.

Lemma run_cons o ops s : run (o :: ops) s = run ops (step s o).
Proof. reflexivity. Qed.

Lemma run_idl ops : forall s, w_idl (run ops s) = w_idl s ++ idl_of ops.
Proof.
  induction ops as [|o ops IH]; intros s; [cbn; now rewrite app_nil_r|].
  rewrite run_cons, IH. destruct o; cbn; try reflexivity. now rewrite <- app_assoc.
Qed.

Lemma run_ext ops : forall s, w_ext (run ops s) = w_ext s ++ ext_of ops.
Proof.
  induction ops as [|o ops IH]; intros s; [cbn; now rewrite app_nil_r|].
  rewrite run_cons, IH. destruct o; cbn; try reflexivity. now rewrite <- app_assoc.
Qed.

Lemma run_log ops : forall s, map fst (w_log (run ops s)) = map fst (w_log s) ++ written_paths ops.
Proof.
  induction ops as [|o ops IH]; intros s; [cbn; now rewrite app_nil_r|].
  rewrite run_cons, IH. destruct o; cbn; try reflexivity; rewrite map_app, <- app_assoc; reflexivity.
Qed.

Lemma run_used ops : forall s k, In k (w_used (run ops s)) <-> In k (w_used s) \/ wrote k ops = true.
Proof.
  induction ops as [|o ops IH]; intros s k.
  - cbn. split; [now left | intros [H|H]; [exact H | discriminate]].
  - rewrite run_cons, IH. unfold wrote. cbn [existsb]. fold (wrote k ops). rewrite orb_true_iff.
    destruct o; cbn [step w_used]; try (cbn; split; intros [H|H]; auto; destruct H as [H|H]; auto; discriminate);
      rewrite in_app_iff; cbn [In]; rewrite String.eqb_eq;
      (split; [intros [[H|[H|[]]]|H]; auto | intros [H|[H|H]]; auto]).
Qed.

(* per key: the report lists are the initial lists followed by exactly what the ops wrote for that key, in order *)
Lemma run_key ops : forall s k r0, get_key k (w_gen s) = Some r0 ->
  exists r, get_key k (w_gen (run ops s)) = Some r /\
            k_headers r = k_headers r0 ++ headers_of k ops /\ k_sources r = k_sources r0 ++ sources_of k ops.
Proof.
  induction ops as [|o ops IH]; intros s k r0 H.
  - exists r0. cbn. now rewrite !app_nil_r.
  - rewrite run_cons.
    assert (Hstep : exists r1, get_key k (w_gen (step s o)) = Some r1 /\
              k_headers r1 = k_headers r0 ++ headers_of k [o] /\ k_sources r1 = k_sources r0 ++ sources_of k [o]).
    { destruct o; cbn [step w_gen headers_of sources_of flat_map app];
        try (exists r0; rewrite !app_nil_r; now repeat split);
        (destruct (String.eqb_spec k key) as [->|Hne];
         [ eexists; split; [apply get_upd_same; exact H|]; cbn; rewrite ?app_nil_r; now split
         | exists r0; split; [rewrite get_upd_other by exact Hne; exact H|]; rewrite !app_nil_r; now split ]). }
    destruct Hstep as (r1 & H1 & Hh & Hs). destruct (IH _ _ _ H1) as (r & Hr & Hh' & Hs').
    exists r. split; [exact Hr|]. unfold headers_of, sources_of in *. cbn [flat_map] in *.
    rewrite !app_nil_r in Hh, Hs. rewrite Hh', Hs', Hh, Hs, <- !app_assoc. now split.
Qed.

Lemma init_get keys k : In k keys -> get_key k (w_gen (init keys)) = Some (mkkrep "." [] "." []).
Proof.
  unfold init. cbn. induction keys as [|a keys IH]; cbn; [contradiction|].
  destruct (String.eqb_spec k a) as [->|Hne]; [reflexivity|]. intros [->|H]; [contradiction | now apply IH].
Qed.

Lemma filter_get (f : string -> bool) g k r :
  get_key k g = Some r -> get_key k (filter (fun kr => f (fst kr)) g) = if f k then Some r else None.
Proof.
  induction g as [|[k' r'] t IH]; cbn; [discriminate|].
  destruct (String.eqb_spec k k') as [->|Hne].
  - intros [= ->]. destruct (f k') eqn:E; cbn.
    + now rewrite String.eqb_refl.
    + clear IH. induction t as [|[k2 r2] t IHt]; cbn; [reflexivity|].
      destruct (f k2) eqn:E2; cbn; [|exact IHt]. destruct (String.eqb_spec k' k2) as [->|]; [congruence | exact IHt].
  - intros H. destruct (f k') eqn:E; cbn.
    + destruct (String.eqb_spec k k'); [contradiction | now apply IH].
    + now apply IH.
Qed.

Lemma mem_In k l : mem k l = true <-> In k l.
Proof.
  unfold mem. rewrite existsb_exists. split; [intros (x & Hx & E); apply String.eqb_eq in E; now subst | intros H; exists k; split; [exact H | apply String.eqb_refl]].
Qed.

(* C14: for EVERY op sequence on a fresh writer, the report lists exactly the files written per generator, in order;
   a generator section is present iff that generator wrote something; the parsed lists are exactly the files read *)
Theorem report_exact keys ops k :
  In k keys ->
  let '(idl, ext, gen) := report (run ops (init keys)) in
  idl = idl_of ops /\ ext = ext_of ops /\
  (wrote k ops = true ->
     exists r, get_key k gen = Some r /\ k_headers r = headers_of k ops /\ k_sources r = sources_of k ops) /\
  (wrote k ops = false -> get_key k gen = None).
Proof.
  intros Hk. unfold report. rewrite run_idl, run_ext. cbn [init w_idl w_ext app].
  split; [reflexivity|]. split; [reflexivity|].
  destruct (run_key ops (init keys) k _ (init_get keys k Hk)) as (r & Hr & Hh & Hs). cbn in Hh, Hs.
  pose proof (filter_get (fun x => mem x (w_used (run ops (init keys)))) _ _ _ Hr) as Hf. cbn beta in Hf.
  split; intros Hw.
  - exists r. split; [|now split]. rewrite Hf.
    assert (mem k (w_used (run ops (init keys))) = true) as ->; [|reflexivity].
    apply mem_In. apply run_used. now right.
  - rewrite Hf. destruct (mem k (w_used (run ops (init keys)))) eqn:E; [|reflexivity].
    apply mem_In in E. apply run_used in E as [E|E]; [destruct E | congruence].
Qed.

(* every path that is created or changed was handed to write_header/write_source/copy_* *)
Theorem writes_confined ops keys : map fst (w_log (run ops (init keys))) = written_paths ops.
Proof. rewrite run_log. reflexivity. Qed.

(* C10 (refuted on the current tree): the report is NOT a function of the last parse+generate only - one
   FileReaderWriter lives as long as the API object and accumulates.  Witness: the same ops run twice. *)
Theorem report_history_dependent :
  exists keys ops, report (run (ops ++ ops) (init keys)) <> report (run ops (init keys)).
Proof.
  exists ["cpp"], [ReadIdl "a.idl"; WriteHeader "cpp" "a.hpp" "x"]. vm_compute. discriminate.
Qed.
