From Coq Require Import List String Ascii Bool Arith Lia.
From PDV Require Import Lib.StrUtil Sys.Config.
Import ListNotations.
Open Scope string_scope. Open Scope list_scope.

(* induction principle for the nested type *)
Fixpoint cfg_ind2 (P : cfg -> Prop)
  (HLeaf : forall v, P (Leaf v)) (HList : forall l, P (LList l))
  (HNode : forall kvs, Forall (fun kv => P (snd kv)) kvs -> P (Node kvs)) (c : cfg) : P c :=
  match c with
  | Leaf v => HLeaf v
  | LList l => HList l
  | Node kvs => HNode kvs ((fix f (l : list (string * cfg)) : Forall (fun kv => P (snd kv)) l :=
                              match l with
                              | [] => Forall_nil _
                              | kv :: t => Forall_cons kv (cfg_ind2 P HLeaf HList HNode (snd kv)) (f t)
                              end) kvs)
  end.

Lemma combine_node dkvs : forall c, combine (Node dkvs) c = go dkvs c.
Proof.
  induction dkvs as [|[k v] rest IH]; intros c; [reflexivity|].
  cbn [go]. rewrite <- IH. reflexivity.
Qed.

Lemma assoc_set_same k v l : assoc k (set k v l) = Some v.
Proof.
  induction l as [|[k' v'] t IH]; cbn.
  - now rewrite String.eqb_refl.
  - destruct (String.eqb_spec k k') as [->|Hne]; cbn.
    + now rewrite String.eqb_refl.
    + destruct (String.eqb_spec k k'); [contradiction | exact IH].
Qed.

Lemma assoc_set_other k k' v l : k' <> k -> assoc k' (set k v l) = assoc k' l.
Proof.
  intros Hne. induction l as [|[k0 v0] t IH]; cbn.
  - destruct (String.eqb_spec k' k); [contradiction | reflexivity].
  - destruct (String.eqb_spec k k0) as [->|Hk]; cbn.
    + destruct (String.eqb_spec k' k0); [contradiction | reflexivity].
    + destruct (String.eqb_spec k' k0); [reflexivity | exact IH].
Qed.

Lemma assoc_none_notin k l : ~ In k (map fst l) -> assoc k l = None.
Proof.
  induction l as [|[k' v'] t IH]; cbn; intros H; [reflexivity|].
  destruct (String.eqb_spec k k') as [->|Hne]; [exfalso; apply H; now left|].
  apply IH. intros Hin. apply H. now right.
Qed.

Lemma assoc_go l : forall c k, NoDup (map fst l) ->
  assoc k (go l c) = match assoc k l with
                     | Some v => Some (merge_val v (assoc k c))
                     | None => assoc k c
                     end.
Proof.
  induction l as [|[k0 v0] rest IH]; intros c k Hnd; [reflexivity|].
  cbn [go assoc map fst] in *. inversion Hnd as [|? ? Hnin Hnd']; subst.
  rewrite (IH _ k Hnd').
  destruct (String.eqb_spec k k0) as [->|Hne].
  - rewrite (assoc_none_notin k0 rest Hnin). apply assoc_set_same.
  - rewrite (assoc_set_other k0 k _ c Hne). reflexivity.
Qed.

Lemma wf_node_nodup kvs : wf (Node kvs) -> NoDup (map fst kvs).
Proof. cbn. intros [H _]. exact H. Qed.

Lemma wf_assoc kvs k v : wf (Node kvs) -> assoc k kvs = Some v -> wf v.
Proof.
  cbn. intros [_ H]. induction kvs as [|[k' v'] t IH]; cbn; [discriminate|].
  destruct H as [Hv Ht]. destruct (String.eqb k k'); [intros [= <-]; exact Hv | now apply IH].
Qed.

(* C17: an override replaces exactly the key it names ... *)
Theorem combine_override : forall p d c v,
  wf d -> p <> [] -> lookup p d = Some v -> is_node v = false ->
  lookup p (Node (combine d c)) = Some v.
Proof.
  induction p as [|k rest IH]; intros d c v Hwf Hne Hl Hv; [contradiction|].
  destruct d as [x|x|dkvs]; cbn [lookup] in Hl; try discriminate.
  destruct (assoc k dkvs) as [dv|] eqn:Ea; [|discriminate].
  rewrite combine_node. cbn [lookup]. rewrite assoc_go by now apply wf_node_nodup. rewrite Ea.
  destruct rest as [|k2 rest'].
  - cbn in Hl. injection Hl as ->. destruct v; cbn in Hv; try discriminate; reflexivity.
  - destruct dv as [x|x|sub]; try (cbn in Hl; discriminate).
    cbn [merge_val]. apply IH; [eapply wf_assoc; eassumption | discriminate | exact Hl | exact Hv].
Qed.

(* ... and keeps everything it does not name *)
Fixpoint untouched (p : list string) (d : cfg) : Prop :=
  match p with
  | [] => False
  | k :: rest =>
      match d with
      | Node dkvs => match assoc k dkvs with
                     | None => True
                     | Some dv => rest <> [] /\ is_node dv = true /\ untouched rest dv
                     end
      | _ => True
      end
  end.

Lemma lookup_nonnode p c : p <> [] -> is_node c = false -> lookup p c = None.
Proof. destruct p; [contradiction|]. destruct c; cbn; try reflexivity; discriminate. Qed.

Theorem combine_preserve : forall p d c,
  wf d -> untouched p d -> lookup p (Node (combine d c)) = lookup p (Node c).
Proof.
  induction p as [|k rest IH]; intros d c Hwf Hu; [contradiction|].
  destruct d as [x|x|dkvs]; try reflexivity.
  rewrite combine_node. cbn [lookup]. rewrite assoc_go by now apply wf_node_nodup.
  cbn [untouched] in Hu. destruct (assoc k dkvs) as [dv|] eqn:Ea; [|reflexivity].
  destruct Hu as (Hne & Hn & Hu). destruct dv as [x|x|sub]; try discriminate.
  cbn [merge_val].
  assert (Hwf' : wf (Node sub)) by (eapply wf_assoc; eassumption).
  change (match rest with [] => Some (Node (combine (Node sub) (sub_of (assoc k c)))) | _ => _ end) with
    (lookup rest (Node (combine (Node sub) (sub_of (assoc k c))))).
  rewrite (IH _ _ Hwf' Hu).
  destruct (assoc k c) as [[x|x|cs]|]; cbn [sub_of].
  - destruct rest; [contradiction | reflexivity].
  - destruct rest; [contradiction | reflexivity].
  - reflexivity.
  - destruct rest; [contradiction | reflexivity].
Qed.

(* ---- merging into the empty mapping is the identity: file-only and options-only are the same tree ---- *)
Lemma set_fresh k v l : ~ In k (map fst l) -> set k v l = l ++ [(k, v)].
Proof.
  induction l as [|[k' v'] t IH]; cbn; intros H; [reflexivity|].
  destruct (String.eqb_spec k k') as [->|Hne]; [exfalso; apply H; now left|].
  f_equal. apply IH. intros Hin. apply H. now right.
Qed.

Lemma go_fresh l : forall acc,
  NoDup (map fst acc ++ map fst l) ->
  go l acc = acc ++ map (fun kv => (fst kv, merge_val (snd kv) None)) l.
Proof.
  induction l as [|[k v] rest IH]; intros acc Hnd; cbn [go map].
  - now rewrite app_nil_r.
  - assert (Hnin : ~ In k (map fst acc)).
    { apply NoDup_remove_2 in Hnd. intros Hin. apply Hnd. apply in_or_app. now left. }
    rewrite (assoc_none_notin k acc Hnin), (set_fresh k _ acc Hnin).
    rewrite IH.
    + rewrite <- app_assoc. reflexivity.
    + rewrite map_app. cbn. rewrite <- app_assoc. exact Hnd.
Qed.

Theorem combine_nil : forall d kvs, wf d -> d = Node kvs -> combine d [] = kvs.
Proof.
  induction d as [v|l|kvs0 IHk] using cfg_ind2; intros kvs Hwf E; try discriminate.
  injection E as <-. rewrite combine_node, go_fresh by (cbn; now apply wf_node_nodup).
  cbn [app]. cbn in Hwf. destruct Hwf as [_ Hall].
  induction kvs0 as [|[k v] t IHt]; [reflexivity|].
  cbn [map fst snd]. inversion IHk as [|? ? Hv Ht]; subst. destruct Hall as [Hwv Hwt].
  rewrite (IHt Ht Hwt). f_equal. f_equal.
  destruct v as [x|x|sub]; try reflexivity. cbn [merge_val sub_of]. f_equal. now apply Hv.
Qed.

Theorem sources_equivalent t : wf (Node t) -> effective t [] = effective [] t.
Proof. intros H. unfold effective. rewrite (combine_nil (Node t) t H eq_refl). reflexivity. Qed.

(* ---- parse_option ---- *)
Lemma split_first_app c l r : has_char c l = false -> split_first c (l ++ String c r) = Some (l, r).
Proof.
  induction l as [|a l IH]; cbn; intros H.
  - now rewrite Ascii.eqb_refl.
  - apply orb_false_iff in H as [Ha Hl]. rewrite Ha, (IH Hl). reflexivity.
Qed.

Lemma has_char_join c sep l :
  has_char c sep = false -> Forall (fun s => has_char c s = false) l -> has_char c (join sep l) = false.
Proof.
  intros Hs. induction l as [|x l IH]; intros HF; [reflexivity|].
  inversion HF as [|? ? Hx Hl]; subst. destruct l as [|y l']; [exact Hx|].
  rewrite join_cons_cons, !has_char_app, Hx, Hs, (IH Hl). reflexivity.
Qed.

Theorem parse_option_singleton keys v :
  keys <> [] ->
  Forall (fun s => has_char dot s = false) keys -> Forall (fun s => has_char "="%char s = false) keys ->
  parse_option (join "." keys ++ "=" ++ v) = Some (singleton keys (parse_value v)).
Proof.
  intros Hne Hd He. unfold parse_option.
  change ("=" ++ v)%string with (String "="%char v).
  rewrite split_first_app by (apply has_char_join; [reflexivity | exact He]).
  change "." with (String dot ""). rewrite split_on_join by assumption. reflexivity.
Qed.

Theorem parse_option_no_eq s : has_char "="%char s = false -> parse_option s = None.
Proof.
  unfold parse_option. assert (H : has_char "="%char s = false -> split_first "="%char s = None).
  { induction s as [|a s IH]; cbn; [reflexivity|]. intros H. apply orb_false_iff in H as [Ha Hs].
    rewrite Ha, (IH Hs). reflexivity. }
  intros Hs. now rewrite (H Hs).
Qed.

Lemma lookup_singleton keys v : lookup keys (singleton keys v) = Some v.
Proof.
  induction keys as [|k rest IH]; [reflexivity|]. cbn. now rewrite String.eqb_refl.
Qed.

Lemma wf_singleton keys v : wf v -> wf (singleton keys v).
Proof.
  induction keys as [|k rest IH]; intros H; [exact H|]. cbn. repeat split; auto.
  constructor; [intros [] | constructor].
Qed.

(* a -o key=value override sets exactly that path, whatever the file or earlier options said *)
Theorem option_overrides keys v c :
  keys <> [] -> is_node v = false -> wf v ->
  lookup keys (Node (combine (singleton keys v) c)) = Some v.
Proof.
  intros Hne Hv Hw. apply combine_override; auto using wf_singleton, lookup_singleton.
Qed.
