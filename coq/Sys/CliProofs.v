From Coq Require Import List String Bool Arith Lia.
From PDV Require Import Gen.ReturnCodes Sys.Cli.
Import ListNotations.
Open Scope string_scope. Open Scope list_scope.

Lemma code_of_in cls tbl c : code_of cls tbl = Some c -> exists d, In (cls, c, d) tbl.
Proof.
  induction tbl as [|[[n c'] d] r IH]; cbn; [discriminate|].
  destruct (String.eqb_spec cls n) as [->|Hne].
  - intros [= <-]. exists d. now left.
  - intros H. destruct (IH H) as [d' Hd]. exists d'. now right.
Qed.

Lemma codes_positive_in tbl cls c d : codes_positive tbl = true -> In (cls, c, d) tbl -> 0 < c.
Proof.
  unfold codes_positive. rewrite forallb_forall. intros H Hin. specialize (H _ Hin). cbn in H.
  destruct c; [discriminate | lia].
Qed.

(* status 0 exactly on success; otherwise the (positive) code of the FIRST reported error *)
Theorem exit_status_zero_iff tbl o :
  codes_positive tbl = true -> (exit_status tbl o = Some 0 <-> o = Success).
Proof.
  intros Hp. split; [|intros ->; reflexivity].
  destruct o as [|c|[|c r]]; cbn; try reflexivity; try discriminate; intros H;
    destruct (code_of_in _ _ _ H) as [d Hd]; pose proof (codes_positive_in _ _ _ _ Hp Hd); lia.
Qed.

Theorem exit_status_first_error tbl c rest :
  exit_status tbl (AppList (c :: rest)) = exit_status tbl (AppExc c).
Proof. reflexivity. Qed.

Lemma nat_mem_in n l : nat_mem n l = true <-> In n l.
Proof.
  induction l as [|x r IH]; cbn; [split; [discriminate | contradiction]|].
  rewrite orb_true_iff, IH, Nat.eqb_eq. split; intros [H|H]; auto.
Qed.

Lemma nodup_nat_NoDup l : nodup_nat l = true -> NoDup l.
Proof.
  induction l as [|x r IH]; cbn; [constructor|]. intros H. apply andb_true_iff in H as [Hx Hr].
  constructor; [|now apply IH]. intros Hin. apply nat_mem_in in Hin. rewrite Hin in Hx. discriminate.
Qed.

(* distinct codes: the exit status identifies the class of the first error *)
Theorem exit_status_injective tbl c1 c2 n :
  codes_distinct tbl = true -> NoDup (map (fun e => fst (fst e)) tbl) ->
  code_of c1 tbl = Some n -> code_of c2 tbl = Some n -> c1 = c2.
Proof.
  unfold codes_distinct. intros Hd Hn. induction tbl as [|[[nm c] d] r IH]; cbn in *; [discriminate|].
  apply andb_true_iff in Hd as [Hx Hr]. inversion Hn as [|? ? Hnin Hn']; subst.
  destruct (String.eqb_spec c1 nm) as [->|N1], (String.eqb_spec c2 nm) as [->|N2]; try reflexivity.
  - intros [= <-] H2. destruct (code_of_in _ _ _ H2) as [d2 Hin]. exfalso.
    apply negb_true_iff in Hx. assert (nat_mem c (map (fun e => snd (fst e)) r) = true).
    { apply nat_mem_in. apply in_map_iff. exists (c2, c, d2). split; [reflexivity | exact Hin]. }
    congruence.
  - intros H1 [= <-]. destruct (code_of_in _ _ _ H1) as [d1 Hin]. exfalso.
    apply negb_true_iff in Hx. assert (nat_mem c (map (fun e => snd (fst e)) r) = true).
    { apply nat_mem_in. apply in_map_iff. exists (c1, c, d1). split; [reflexivity | exact Hin]. }
    congruence.
  - now apply IH.
Qed.

(* finite checks over the table regenerated from /repo on this run *)
Theorem table_codes_positive : codes_positive exception_classes = true.
Proof. vm_compute. reflexivity. Qed.
Theorem table_codes_distinct : codes_distinct exception_classes = true.
Proof. vm_compute. reflexivity. Qed.
Theorem table_documented : documented exception_classes return_codes = true.
Proof. vm_compute. reflexivity. Qed.

(* the chained CLI performs exactly the documented API sequence, --clean reaching every target *)
Theorem cli_ops_eq_api_ops clean ts : cli_ops clean ts = api_ops clean ts.
Proof.
  unfold cli_ops, api_ops. cbn [app]. do 2 f_equal.
  induction ts as [|t r IH]; cbn; [reflexivity | now rewrite IH].
Qed.

Theorem cli_clean_every_target clean ts t c :
  In (Generate t c) (cli_ops clean ts) -> c = clean /\ In t ts.
Proof.
  unfold cli_ops. cbn [app]. intros [H|[H|H]]; try discriminate.
  apply in_app_or in H as [H|[H|[]]]; [|discriminate].
  apply in_map_iff in H as (t' & [= <- <-] & Hin). now split.
Qed.

(* first failing stage decides the outcome, later stages leave no trace *)
Theorem run_ops_first_failure pre o post fails e :
  (forall x, In x pre -> fails x = None) -> fails o = Some e ->
  run_ops (pre ++ o :: post) fails = (e, pre ++ [o]).
Proof.
  intros Hpre Ho. induction pre as [|p r IH]; cbn.
  - now rewrite Ho.
  - rewrite (Hpre p (or_introl eq_refl)). rewrite IH; [reflexivity|]. intros x Hx. apply Hpre. now right.
Qed.
