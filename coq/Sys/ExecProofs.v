From Coq Require Import List String Bool Arith Lia.
From PDV Require Import Sys.Exec.
Import ListNotations.
Open Scope string_scope. Open Scope list_scope.

Lemma execute_cwd cmd wd w : cwd (fst (execute cmd wd w)) = cwd w.
Proof. unfold execute. destruct (next_outcome w); reflexivity. Qed.

Lemma execute_artifacts cmd wd w : artifacts (fst (execute cmd wd w)) = artifacts w.
Proof. unfold execute. destruct (next_outcome w); reflexivity. Qed.

Lemma execute_result cmd wd w :
  snd (execute cmd wd w) = match next_outcome w with Zero => Done | _ => Err130 end.
Proof. unfold execute. destruct (next_outcome w); reflexivity. Qed.

Lemma run_step_cwd s w : cwd (fst (run_step s w)) = cwd w.
Proof.
  destruct s; cbn [run_step]; try reflexivity.
  - apply execute_cwd.
  - destruct (execute cmd wd w) as [w1 r] eqn:E. pose proof (execute_cwd cmd wd w) as H. rewrite E in H. cbn in H.
    destruct r; [exact H|]. rewrite execute_cwd. exact H.
  - destruct (execute cmd wd w) as [w1 r] eqn:E. pose proof (execute_cwd cmd wd w) as H. rewrite E in H. cbn in H.
    destruct r; exact H.
Qed.

(* C20: whatever the tools do, at whatever point, the working directory is the one before the call *)
Theorem run_cwd steps : forall w, cwd (fst (run steps w)) = cwd w.
Proof.
  induction steps as [|s rest IH]; intros w; cbn [run]; [reflexivity|].
  destruct (run_step s w) as [w1 r] eqn:E. pose proof (run_step_cwd s w) as H. rewrite E in H. cbn in H.
  destruct r; [rewrite IH; exact H | exact H].
Qed.

(* failure is prefix-closed: nothing after the failing command runs *)
Theorem run_app s1 s2 : forall w,
  run (s1 ++ s2) w = match run s1 w with (w1, Done) => run s2 w1 | (w1, Err130) => (w1, Err130) end.
Proof.
  induction s1 as [|s rest IH]; intros w; cbn [run app]; [reflexivity|].
  destruct (run_step s w) as [w1 [|]]; [apply IH | reflexivity].
Qed.

(* a plain command that is missing or exits non-zero stops the pipeline with code 130, wherever it sits *)
Theorem run_fails_at pre cmd wd post w w1 :
  run pre w = (w1, Done) -> next_outcome w1 <> Zero ->
  run (pre ++ Exec cmd wd :: post) w = (fst (execute cmd wd w1), Err130).
Proof.
  intros Hpre Ho. rewrite run_app, Hpre. cbn [run run_step].
  destruct (execute cmd wd w1) as [w2 r] eqn:E.
  pose proof (execute_result cmd wd w1) as Hr. rewrite E in Hr. cbn in Hr.
  destruct (next_outcome w1); [contradiction | subst r; reflexivity | subst r; reflexivity].
Qed.

Theorem run_tool_fails_at pre cmd wd post w w1 :
  run pre w = (w1, Done) -> next_outcome w1 <> Zero ->
  run (pre ++ ToolEmit cmd wd :: post) w = (fst (execute cmd wd w1), Err130).
Proof.
  intros Hpre Ho. rewrite run_app, Hpre. cbn [run run_step].
  destruct (execute cmd wd w1) as [w2 r] eqn:E.
  pose proof (execute_result cmd wd w1) as Hr. rewrite E in Hr. cbn in Hr.
  destruct (next_outcome w1); [contradiction | subst r; reflexivity | subst r; reflexivity].
Qed.

(* conversely a pipeline only fails because some command was missing / exited non-zero *)
Lemma run_no_exec_done l : forall w, existsb is_exec l = false -> snd (run l w) = Done.
Proof.
  induction l as [|s t IH]; intros w H; cbn [run]; [reflexivity|].
  cbn in H. apply orb_false_iff in H as [Hs Ht].
  destruct s; cbn in Hs; try discriminate; cbn [run_step]; now apply IH.
Qed.

Lemma run_step_err_artifacts s w w1 : run_step s w = (w1, Err130) -> artifacts w1 = artifacts w.
Proof.
  destruct s; cbn [run_step]; try discriminate.
  - intros H. pose proof (execute_artifacts cmd wd w) as A. rewrite H in A. exact A.
  - destruct (execute cmd wd w) as [w2 r] eqn:E. pose proof (execute_artifacts cmd wd w) as A. rewrite E in A. cbn in A.
    destruct r; [discriminate|]. intros H. pose proof (execute_artifacts cmd wd w2) as B. rewrite H in B. cbn in B. congruence.
  - destruct (execute cmd wd w) as [w2 r] eqn:E. pose proof (execute_artifacts cmd wd w) as A. rewrite E in A. cbn in A.
    destruct r; [discriminate|]. intros [= <-]. exact A.
Qed.

Lemma run_step_done_noemit_artifacts s w w1 :
  emits s = false -> s <> ResetOut -> run_step s w = (w1, Done) -> artifacts w1 = artifacts w.
Proof.
  destruct s; cbn [emits run_step]; try discriminate; intros _ Hn.
  - intros H. pose proof (execute_artifacts cmd wd w) as A. rewrite H in A. exact A.
  - destruct (execute cmd wd w) as [w2 r] eqn:E. pose proof (execute_artifacts cmd wd w) as A. rewrite E in A. cbn in A.
    destruct r.
    + intros [= <-]. exact A.
    + intros H. pose proof (execute_artifacts cmd wd w2) as B. rewrite H in B. cbn in B. congruence.
  - contradiction.
Qed.

Lemma safe_err_no_artifact l : forall w w1,
  safe l = true -> artifacts w = 0 -> run l w = (w1, Err130) -> artifacts w1 = 0.
Proof.
  induction l as [|s t IH]; intros w w1 Hs Ha; cbn [run]; [discriminate|].
  cbn [safe] in Hs. apply andb_true_iff in Hs as [He Ht].
  destruct (run_step s w) as [w2 r] eqn:E. destruct r.
  - destruct (emits s) eqn:Em.
    + apply negb_true_iff in He. intros H. pose proof (run_no_exec_done t w2 He) as D. rewrite H in D. discriminate.
    + destruct s; cbn in Em; try discriminate.
      * apply (IH w2 w1 Ht). assert (X := run_step_done_noemit_artifacts (Exec cmd wd) w w2 eq_refl ltac:(discriminate) E). lia.
      * apply (IH w2 w1 Ht). assert (X := run_step_done_noemit_artifacts (ExecOrElse cmd wd) w w2 eq_refl ltac:(discriminate) E). lia.
      * apply (IH w2 w1 Ht). cbn in E. injection E as <-. reflexivity.
  - intros [= <-]. rewrite (run_step_err_artifacts _ _ _ E). exact Ha.
Qed.

(* C20: the output directory is reset first; when any command fails it holds no artifact - stale ones included *)
Theorem reset_safe_no_artifact l w w1 :
  safe l = true -> run (ResetOut :: l) w = (w1, Err130) -> artifacts w1 = 0.
Proof.
  intros Hs. cbn [run run_step]. apply safe_err_no_artifact; [exact Hs | reflexivity].
Qed.

Theorem package_steps_safe t : exists l, package_steps t = ResetOut :: l /\ safe l = true.
Proof. destruct t; eexists; split; reflexivity. Qed.

Theorem package_fail_no_artifact t w w1 :
  (* whatever happened before (stale artifacts, earlier builds), a failing package step leaves nothing *)
  run (package_steps t) w = (w1, Err130) -> artifacts w1 = 0.
Proof.
  destruct (package_steps_safe t) as (l & -> & Hs). now apply reset_safe_no_artifact.
Qed.
