From Coq Require Import List String Bool.
From PDV Require Import Gen.TargetTable Sys.Api.
Import ListNotations.
Open Scope string_scope. Open Scope list_scope.

Lemma first_missing_none gens cfg : first_missing gens cfg = None <-> forall g, In g gens -> mem g cfg = true.
Proof.
  unfold first_missing. split.
  - intros H g Hin. pose proof (find_none _ _ H g Hin) as E. cbn in E. now apply negb_false_iff in E.
  - intros H. induction gens as [|g r IH]; [reflexivity|]. cbn.
    rewrite (H g (or_introl eq_refl)). cbn. apply IH. intros g' Hg. apply H. now right.
Qed.

Lemma first_missing_some gens cfg g : first_missing gens cfg = Some g -> In g gens /\ mem g cfg = false.
Proof. unfold first_missing. intros H. apply find_some in H as [Hin E]. split; [exact Hin | now apply negb_true_iff in E]. Qed.

(* for every table, every set of configured keys and every requested name: generation is accepted exactly when the
   target exists and all of its generators are configured; otherwise the diagnostic names a generator that is missing *)
Theorem generate_ok_iff tbl cfg t :
  generate_outcome tbl cfg t = AOk <->
  exists gens, lookup_target t tbl = Some gens /\ forall g, In g gens -> mem g cfg = true.
Proof.
  unfold generate_outcome. destruct (lookup_target t tbl) as [gens|].
  - destruct (first_missing gens cfg) as [g|] eqn:E.
    + split; [discriminate|]. intros (gens' & [= <-] & H). apply first_missing_some in E as [Hin Hm].
      rewrite (H g Hin) in Hm. discriminate.
    + split; [|reflexivity]. intros _. exists gens. split; [reflexivity|]. now apply first_missing_none.
  - split; [discriminate | intros (g & H & _); discriminate].
Qed.

Theorem generate_config_error_names_missing tbl cfg t k :
  generate_outcome tbl cfg t = AConfig k ->
  exists gens g, lookup_target t tbl = Some gens /\ In g gens /\ mem g cfg = false /\ k = ("generator." ++ g)%string.
Proof.
  unfold generate_outcome. destruct (lookup_target t tbl) as [gens|]; [|discriminate].
  destruct (first_missing gens cfg) as [g|] eqn:E; [|discriminate].
  intros [= <-]. apply first_missing_some in E as [Hin Hm]. now exists gens, g.
Qed.

(* once parse() accepted the configuration, generating any *configured* target cannot fail on configuration *)
Theorem parse_ok_then_configured_generate_ok tbl cfg t gens :
  parse_outcome tbl true cfg = AOk -> In (t, gens) tbl -> mem t cfg = true ->
  first_missing gens cfg = None.
Proof.
  unfold parse_outcome. cbn [negb].
  destruct (first_missing (List.concat (map snd (configured_targets tbl cfg))) cfg) as [g|] eqn:E; [discriminate|].
  intros _ Hin Hm. apply first_missing_none. intros g Hg.
  apply (proj1 (first_missing_none _ _) E). apply in_concat. exists gens. split; [|exact Hg].
  apply in_map_iff. exists (t, gens). split; [reflexivity|].
  unfold configured_targets. apply filter_In. split; [exact Hin | exact Hm].
Qed.
