From Coq Require Import List String Bool Arith.
From PDV Require Import Sys.Lsp.
Import ListNotations.
Open Scope string_scope. Open Scope list_scope.

Section Proofs.
  Variable text : Type.
  Variable front_of : text -> fout.
  Notation st := (st text).
  Notation step := (step text front_of).
  Notation run := (run text front_of).

  Lemma get_put_same {A} k (v : A) l : get k (put k v l) = Some v.
  Proof.
    induction l as [|[k' v'] t IH]; cbn; [now rewrite String.eqb_refl|].
    destruct (String.eqb_spec k k') as [->|Hne]; cbn; [now rewrite String.eqb_refl|].
    destruct (String.eqb_spec k k'); [contradiction | exact IH].
  Qed.
  Lemma get_put_other {A} k k' (v : A) l : k' <> k -> get k' (put k v l) = get k' l.
  Proof.
    intros Hne. induction l as [|[k0 v0] t IH]; cbn.
    - destruct (String.eqb_spec k' k); [contradiction | reflexivity].
    - destruct (String.eqb_spec k k0) as [->|H0]; cbn.
      + destruct (String.eqb_spec k' k0); [contradiction | reflexivity].
      + destruct (String.eqb_spec k' k0); [reflexivity | exact IH].
  Qed.
  Lemma get_del_same {A} k (l : list (string * A)) : get k (del k l) = None.
  Proof.
    induction l as [|[k' v'] t IH]; cbn; [reflexivity|].
    destruct (String.eqb_spec k k') as [->|Hne]; [exact IH|]. cbn. destruct (String.eqb_spec k k'); [contradiction | exact IH].
  Qed.
  Lemma get_del_other {A} k k' (l : list (string * A)) : k' <> k -> get k' (del k l) = get k' l.
  Proof.
    intros Hne. induction l as [|[k0 v0] t IH]; cbn; [reflexivity|].
    destruct (String.eqb_spec k k0) as [->|H0].
    - destruct (String.eqb_spec k' k0); [contradiction | exact IH].
    - cbn. destruct (String.eqb_spec k' k0); [reflexivity | exact IH].
  Qed.

  (* the refinement invariant: for every open document whose current text the front end can judge, the last published
     diagnostics and the caches are exactly those of the CURRENT text *)
  Definition current (s : st) : Prop :=
    forall u t v, get u (docs text s) = Some t -> front_of t = FView v ->
      get u (published text s) = Some (v_diags v) /\ get u (caches text s) = Some v.

  (* ... for a document whose last validation failed internally nothing is claimed (finding C18-K1) *)
  Definition settled (s : st) : Prop :=
    forall u t, get u (docs text s) = Some t -> front_of t = FCrash -> True.

  Lemma current_init : current (init text).
  Proof. intros u t v H. discriminate. Qed.

  Definition stale_free (s : st) : Prop :=
    (* every open document's text is one the front end judged when it arrived *)
    forall u t, get u (docs text s) = Some t -> exists v, front_of t = FView v.

  Theorem step_current s e :
    current s -> (forall u t, (e = Open text u t \/ e = Change text u t) -> exists v, front_of t = FView v) ->
    current (fst (step s e)).
  Proof.
    intros Hc Hok. destruct e as [u t|u t|u|u r c|u]; cbn [step].
    - destruct (Hok u t (or_introl eq_refl)) as [v Hv]. unfold validate. rewrite Hv. cbn [fst].
      intros u' t' v' Hd Hf. cbn [docs published caches] in *.
      destruct (String.eqb_spec u' u) as [->|Hne].
      + rewrite get_put_same in Hd. injection Hd as <-. rewrite Hv in Hf. injection Hf as <-.
        now rewrite !get_put_same.
      + rewrite get_put_other in Hd by exact Hne. rewrite !get_put_other by exact Hne. now apply (Hc u' t' v').
    - destruct (Hok u t (or_intror eq_refl)) as [v Hv]. unfold validate. rewrite Hv. cbn [fst].
      intros u' t' v' Hd Hf. cbn [docs published caches] in *.
      destruct (String.eqb_spec u' u) as [->|Hne].
      + rewrite get_put_same in Hd. injection Hd as <-. rewrite Hv in Hf. injection Hf as <-.
        now rewrite !get_put_same.
      + rewrite get_put_other in Hd by exact Hne. rewrite !get_put_other by exact Hne. now apply (Hc u' t' v').
    - cbn [fst]. intros u' t' v' Hd Hf. cbn [docs published caches] in *.
      destruct (String.eqb_spec u' u) as [->|Hne]; [rewrite get_del_same in Hd; discriminate|].
      rewrite get_del_other in Hd by exact Hne. rewrite get_del_other by exact Hne. now apply (Hc u' t' v').
    - exact Hc.
    - exact Hc.
  Qed.

  Definition judged (es : list (ev text)) : Prop :=
    forall u t, In (Open text u t) es \/ In (Change text u t) es -> exists v, front_of t = FView v.

  (* C18: after EVERY event sequence whose texts the front end can judge, answers reflect the current text *)
  Theorem run_current es : forall s, current s -> judged es -> current (fst (run s es)).
  Proof.
    induction es as [|e r IH]; intros s Hc Hj; [exact Hc|].
    cbn [run]. destruct (step s e) as [s1 o] eqn:E. destruct (run s1 r) as [s2 os] eqn:E2. cbn [fst].
    assert (H1 : current s1).
    { replace s1 with (fst (step s e)) by now rewrite E. apply step_current; [exact Hc|].
      intros u t [Heq|Heq]; apply (Hj u t); [left | right]; left; exact Heq. }
    replace s2 with (fst (run s1 r)) by now rewrite E2. apply IH; [exact H1|].
    intros u t [H|H]; apply (Hj u t); [left | right]; now right.
  Qed.

  (* queries are answered from the caches only - hence, by the invariant, from the current text only *)
  Theorem definition_from_current_text s u t v row col :
    current s -> get u (docs text s) = Some t -> front_of t = FView v ->
    snd (step s (GoToDef text u row col)) = OAnswer (find_def row col (v_defs v)).
  Proof. intros Hc Hd Hf. cbn. destruct (Hc u t v Hd Hf) as [_ ->]. reflexivity. Qed.

  Theorem symbols_from_current_text s u t v :
    current s -> get u (docs text s) = Some t -> front_of t = FView v ->
    snd (step s (Symbols text u)) = OSymbols (Some (v_syms v)).
  Proof. intros Hc Hd Hf. cbn. destruct (Hc u t v Hd Hf) as [_ ->]. reflexivity. Qed.

  (* closing a document drops its state, and queries on documents that are not open are answered with "nothing" *)
  Theorem close_drops s u : get u (caches text (fst (step s (Close text u)))) = None /\ get u (docs text (fst (step s (Close text u)))) = None.
  Proof. cbn. split; apply get_del_same. Qed.

  Theorem query_unknown_document s u row col :
    get u (caches text s) = None ->
    snd (step s (GoToDef text u row col)) = OAnswer None /\ snd (step s (Symbols text u)) = OSymbols None.
  Proof. intros H. cbn. rewrite H. now split. Qed.

  (* no handler fails internally, except a validation whose front end fails internally *)
  Theorem handlers_total s e :
    errlog text (fst (step s e)) <> errlog text s ->
    exists u t, (e = Open text u t \/ e = Change text u t) /\ front_of t = FCrash.
  Proof.
    destruct e as [u t|u t|u|u r c|u]; cbn [step]; try (intros H; now contradiction H).
    - unfold validate. destruct (front_of t) eqn:E; cbn; [intros H; now contradiction H|]. intros _. exists u, t. now split; [left|].
    - unfold validate. destruct (front_of t) eqn:E; cbn; [intros H; now contradiction H|]. intros _. exists u, t. now split; [right|].
  Qed.
End Proofs.
