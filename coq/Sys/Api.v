(* Which targets may be parsed/generated under which set of configured generator keys
   (API.ConfiguredContext.__init__/parse/generate, Generator.generate), over the regenerated target table. *)
From Coq Require Import List String Bool.
From PDV Require Import Gen.TargetTable.
Import ListNotations.
Open Scope string_scope. Open Scope list_scope.

Inductive api_out := AOk | AConfig (key : string) | AUnknownTarget.

Definition mem (k : string) (l : list string) : bool := existsb (String.eqb k) l.

Fixpoint lookup_target (t : string) (tbl : list (string * list string)) : option (list string) :=
  match tbl with [] => None | (k, g) :: r => if String.eqb t k then Some g else lookup_target t r end.

Definition first_missing (gens cfgkeys : list string) : option string :=
  find (fun g => negb (mem g cfgkeys)) gens.

(* configured targets: those whose own key is set in the generate section *)
Definition configured_targets (tbl : list (string * list string)) (cfgkeys : list string) :=
  filter (fun t => mem (fst t) cfgkeys) tbl.

(* parse(): get_config(config, "generate"); then every generator of every configured target must be configured *)
Definition parse_outcome (tbl : list (string * list string)) (has_generate : bool) (cfgkeys : list string) : api_out :=
  if negb has_generate then AConfig "generate"
  else match first_missing (List.concat (map snd (configured_targets tbl cfgkeys))) cfgkeys with
       | Some g => AConfig ("generate." ++ g)%string
       | None => AOk
       end.

(* generate(t): unknown name -> UnknownTargetException; a generator without config -> ConfigurationException *)
Definition generate_outcome (tbl : list (string * list string)) (cfgkeys : list string) (t : string) : api_out :=
  match lookup_target t tbl with
  | None => AUnknownTarget
  | Some gens => match first_missing gens cfgkeys with
                 | Some g => AConfig ("generator." ++ g)%string
                 | None => AOk
                 end
  end.
