(* Model of src/pydjinni/packaging/target.py: execute() (chdir / which / os.system / finally chdir back), the step
   lists of PackageTarget.build / package / publish for the three package plugins, and their execution against an
   outcome oracle for the external tools.  Definitions only. *)
From Coq Require Import List String Bool Arith.
Import ListNotations.
Open Scope string_scope. Open Scope list_scope.

Inductive outcome := Zero | NonZero | Missing.
Inductive result := Done | Err130.   (* ExternalCommandException, return code 130 *)

Inductive step :=
  | Exec (cmd wd : string)          (* execute(cmd, ..., working_dir=wd); "" = the default working directory *)
  | ExecOrElse (cmd wd : string)    (* try: execute(..) except ExternalCommandException: execute(..)  (nuget sources update/add) *)
  | ToolEmit (cmd wd : string)      (* execute() of a tool that itself writes the artifact into the package output dir *)
  | ResetOut                        (* prepare(self.package_output_path, True) *)
  | Emit                            (* copy_file / copy_directory into the package output directory *)
  | Seed.                           (* test scaffolding: a stale artifact already lies in the output directory *)

Record world := { cwd : string; artifacts : nat; calls : list (string * string); plan : list outcome }.

Definition default_wd := ".".
Definition next_outcome (w : world) : outcome := match plan w with [] => Zero | o :: _ => o end.
Definition consume (w : world) : world :=
  {| cwd := cwd w; artifacts := artifacts w; calls := calls w; plan := tl (plan w) |}.
Definition chdir (d : string) (w : world) : world :=
  {| cwd := d; artifacts := artifacts w; calls := calls w; plan := plan w |}.
Definition log_call (cmd : string) (w : world) : world :=
  {| cwd := cwd w; artifacts := artifacts w; calls := calls w ++ [(cmd, cwd w)]; plan := plan w |}.
Definition set_artifacts (n : nat) (w : world) : world :=
  {| cwd := cwd w; artifacts := n; calls := calls w; plan := plan w |}.

(* execute(): cwd = getcwd(); chdir(working_dir); try: which -> system -> raise/return; finally: chdir(cwd) *)
Definition execute (cmd wd : string) (w : world) : world * result :=
  let saved := cwd w in
  let o := next_outcome w in
  let w1 := chdir (if String.eqb wd "" then default_wd else wd) (consume w) in
  let '(w2, r) := match o with
                  | Missing => (w1, Err130)              (* shutil.which() is None: raise *)
                  | NonZero => (log_call cmd w1, Err130) (* os.system() != 0: raise *)
                  | Zero => (log_call cmd w1, Done)
                  end in
  (chdir saved w2, r).                                   (* finally *)

Definition run_step (s : step) (w : world) : world * result :=
  match s with
  | Exec cmd wd => execute cmd wd w
  | ExecOrElse cmd wd =>
      match execute cmd wd w with
      | (w1, Done) => (w1, Done)
      | (w1, Err130) => execute cmd wd w1
      end
  | ToolEmit cmd wd =>
      match execute cmd wd w with
      | (w1, Done) => (set_artifacts (S (artifacts w1)) w1, Done)
      | (w1, Err130) => (w1, Err130)
      end
  | ResetOut => (set_artifacts 0 w, Done)
  | Emit => (set_artifacts (S (artifacts w)) w, Done)
  | Seed => (set_artifacts (S (artifacts w)) w, Done)
  end.

Fixpoint run (steps : list step) (w : world) : world * result :=
  match steps with
  | [] => (w, Done)
  | s :: rest =>
      match run_step s w with
      | (w1, Done) => run rest w1
      | (w1, Err130) => (w1, Err130)
      end
  end.

(* ---- the step lists of the three package plugins ---- *)
Inductive target := Aar | Nuget | Swift.
Definition key (t : target) : string := match t with Aar => "aar" | Nuget => "nuget" | Swift => "swiftpackage" end.
Definition pbp (t : target) : string := "dist/Release/build/" ++ key t ++ "/package".
Definition outp (t : target) : string := "dist/Release/package/" ++ key t.
Definition repo_dir : string := "dist/Release/build/swiftpackage/package_repository".

(* PackageTarget.build for n architectures (+ SwiftpackageTarget.after_build: lipo when more than one) *)
Definition build_steps (t : target) (n_archs : nat) : list step :=
  repeat (Exec "conan" "") n_archs ++
  match t with Swift => if Nat.ltb 1 n_archs then [Exec "lipo" ""] else [] | _ => [] end.

(* PackageTarget.package: reset of the output directory, then package_build() *)
Definition package_steps (t : target) : list step :=
  ResetOut ::
  match t with
  | Aar => [Exec "gradlew" (pbp Aar); Emit]
  | Nuget => [ToolEmit "nuget" (pbp Nuget)]
  | Swift => [Exec "xcodebuild" ""; Emit]
  end.

Definition publish_steps (t : target) (remote repo_exists : bool) : list step :=
  match t with
  | Aar => [Exec "gradlew" (pbp Aar)]
  | Nuget => (if remote then [ExecOrElse "nuget" (outp Nuget)] else []) ++ [Exec "nuget" (outp Nuget)]
  | Swift =>
      if remote then
        (if repo_exists then [Exec "git" repo_dir; Exec "git" repo_dir]
         else [Exec "git" ""; Exec "git" repo_dir]) ++
        repeat (Exec "git" repo_dir) 5
      else []
  end.

Definition is_exec (s : step) : bool :=
  match s with Exec _ _ | ExecOrElse _ _ | ToolEmit _ _ => true | _ => false end.
Definition emits (s : step) : bool :=
  match s with Emit | ToolEmit _ _ | Seed => true | _ => false end.

(* an artifact is produced only when no external command can still fail afterwards *)
Fixpoint safe (l : list step) : bool :=
  match l with
  | [] => true
  | s :: t => (if emits s then negb (existsb is_exec t) else true) && safe t
  end.
