(* The file tree after a run of writer operations is a function of the LAST write to each path: what was written earlier
   (previous parses, other targets) does not matter for a path that the final generation writes, and blocks of operations
   with disjoint paths (the targets) commute. *)
From Coq Require Import List String Ascii Bool Arith.
From PDV Require Import Lib.StrUtil Sys.Writer.
Import ListNotations.
Open Scope string_scope. Open Scope list_scope.

Fixpoint fs_get (p : string) (fs : list (string * string)) : option string :=
  match fs with [] => None | (p', c) :: t => if String.eqb p p' then Some c else fs_get p t end.

Definition write_of (o : wop) : option (string * string) :=
  match o with
  | WriteHeader _ p c | WriteSource _ p c => Some (p, c)
  | CopyHeader _ p | CopySource _ p => Some (p, "<copied>")
  | _ => None
  end.
Fixpoint last_write (p : string) (ops : list wop) : option string :=
  match ops with
  | [] => None
  | o :: r => match last_write p r with
              | Some c => Some c
              | None => match write_of o with Some (p', c) => if String.eqb p p' then Some c else None | None => None end
              end
  end.

Lemma fs_get_set p q c fs : fs_get p (fs_set q c fs) = if String.eqb p q then Some c else fs_get p fs.
Proof.
  induction fs as [|[p' c'] t IH]; cbn [fs_set fs_get].
  - destruct (String.eqb p q); reflexivity.
  - destruct (String.eqb q p') eqn:E.
    + apply String.eqb_eq in E. subst p'. cbn [fs_get]. destruct (String.eqb p q); reflexivity.
    + cbn [fs_get]. rewrite IH. destruct (String.eqb p p') eqn:E2; [|reflexivity].
      apply String.eqb_eq in E2. subst p'. destruct (String.eqb p q) eqn:E3; [|reflexivity].
      apply String.eqb_eq in E3. subst q. rewrite String.eqb_refl in E. discriminate.
Qed.

Lemma step_files p s o :
  fs_get p (w_files (step s o)) = match write_of o with Some (p', c) => if String.eqb p p' then Some c else fs_get p (w_files s) | None => fs_get p (w_files s) end.
Proof. destruct o; cbn [step w_files write_of]; try reflexivity; apply fs_get_set. Qed.

Theorem files_last_write p ops : forall s,
  fs_get p (w_files (run ops s)) = match last_write p ops with Some c => Some c | None => fs_get p (w_files s) end.
Proof.
  induction ops as [|o r IH]; intros s; [reflexivity|].
  unfold run in *. cbn [fold_left last_write]. rewrite IH.
  destruct (last_write p r); [reflexivity|]. rewrite step_files.
  destruct (write_of o) as [[p' c]|]; [destruct (String.eqb p p'); reflexivity | reflexivity].
Qed.

Lemma last_write_app p a b : last_write p (a ++ b) = match last_write p b with Some c => Some c | None => last_write p a end.
Proof.
  induction a as [|o r IH]; cbn [app last_write]; [destruct (last_write p b); reflexivity|].
  rewrite IH. destruct (last_write p b); reflexivity.
Qed.

(* history freedom: a path written by the final generation g has the content g gives it, whatever ran before, from whatever state *)
Theorem files_history_free p g h h' s s' c : last_write p g = Some c ->
  fs_get p (w_files (run (h ++ g) s)) = Some c /\ fs_get p (w_files (run (h' ++ g) s')) = Some c.
Proof. intros H. rewrite !files_last_write, !last_write_app, H. split; reflexivity. Qed.

(* target-order freedom: two blocks that write disjoint sets of paths commute, path by path *)
Definition writes_path (p : string) (ops : list wop) : bool := match last_write p ops with Some _ => true | None => false end.
Theorem files_target_order_free a b s :
  (forall p, writes_path p a = true -> writes_path p b = false) ->
  forall p, fs_get p (w_files (run (a ++ b) s)) = fs_get p (w_files (run (b ++ a) s)).
Proof.
  intros Hd p. rewrite !files_last_write, !last_write_app. specialize (Hd p). unfold writes_path in Hd.
  destruct (last_write p a) as [ca|]; destruct (last_write p b) as [cb|]; try reflexivity.
  specialize (Hd eq_refl). discriminate.
Qed.

Example order_matters_on_shared_paths :
  let a := [WriteSource "jni" "out/x.cpp" "from-jni"] in let b := [WriteSource "objcpp" "out/x.cpp" "from-objcpp"] in
  fs_get "out/x.cpp" (w_files (run (a ++ b) (init []))) <> fs_get "out/x.cpp" (w_files (run (b ++ a) (init []))).
Proof. vm_compute. discriminate. Qed.
