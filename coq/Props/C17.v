(* C17 - Configuration sources are equivalent, merge key-wise, and fail cleanly. *)
From Coq Require Import List String Ascii Bool.
From PDV Require Import Lib.StrUtil Sys.Config Sys.ConfigProofs Gen.TargetTable Sys.Api Sys.ApiProofs.
Import ListNotations.
Open Scope string_scope. Open Scope list_scope.

(* overrides replace exactly the keys they name ... (any tree depth, any file tree, incl. scalar/mapping clashes) *)
Theorem C17_merge_override : forall p d c v,
  wf d -> p <> [] -> lookup p d = Some v -> is_node v = false ->
  lookup p (Node (combine d c)) = Some v.
Proof. exact combine_override. Qed.
Print Assumptions C17_merge_override.

(* ... and keep every sibling key from the file *)
Theorem C17_merge_preserve : forall p d c,
  wf d -> untouched p d -> lookup p (Node (combine d c)) = lookup p (Node c).
Proof. exact combine_preserve. Qed.
Print Assumptions C17_merge_preserve.

(* -o k1.k2...kn=v is the one-path tree; [a,b] is the list form *)
Theorem C17_option_parse : forall keys v,
  keys <> [] ->
  Forall (fun s => has_char dot s = false) keys -> Forall (fun s => has_char "="%char s = false) keys ->
  parse_option (join "." keys ++ "=" ++ v) = Some (singleton keys (parse_value v)).
Proof. exact parse_option_singleton. Qed.
Print Assumptions C17_option_parse.

(* a malformed override (no '=') is refused, not crashed on *)
Theorem C17_option_malformed : forall s, has_char "="%char s = false -> parse_option s = None.
Proof. exact parse_option_no_eq. Qed.
Print Assumptions C17_option_malformed.

(* an override wins over whatever the file and earlier options said at that path *)
Theorem C17_option_overrides : forall keys v c,
  keys <> [] -> is_node v = false -> wf v ->
  lookup keys (Node (combine (singleton keys v) c)) = Some v.
Proof. exact option_overrides. Qed.
Print Assumptions C17_option_overrides.

(* the same settings given only as file or only as options/-o hand the same tree to validation *)
Theorem C17_sources_equiv : forall t, wf (Node t) -> effective t [] = effective [] t.
Proof. exact sources_equivalent. Qed.
Print Assumptions C17_sources_equiv.

(* target lattice, for every set of configured generator keys and every requested name *)
Theorem C17_generate_ok_iff : forall tbl cfg t,
  generate_outcome tbl cfg t = AOk <->
  exists gens, lookup_target t tbl = Some gens /\ forall g, In g gens -> mem g cfg = true.
Proof. exact generate_ok_iff. Qed.
Print Assumptions C17_generate_ok_iff.

Theorem C17_generate_error_names_key : forall tbl cfg t k,
  generate_outcome tbl cfg t = AConfig k ->
  exists gens g, lookup_target t tbl = Some gens /\ In g gens /\ mem g cfg = false /\ k = ("generator." ++ g)%string.
Proof. exact generate_config_error_names_missing. Qed.
Print Assumptions C17_generate_error_names_key.

Theorem C17_parse_ok_generate_ok : forall tbl cfg t gens,
  parse_outcome tbl true cfg = AOk -> In (t, gens) tbl -> mem t cfg = true -> first_missing gens cfg = None.
Proof. exact parse_ok_then_configured_generate_ok. Qed.
Print Assumptions C17_parse_ok_generate_ok.

Example C17_example :
  let file := [("generate", Node [("cpp", Node [("out", Leaf "a"); ("namespace", Leaf "n")]); ("java", Leaf "oops")])] in
  match fold_options ["generate.cpp.out=b"; "generate.java.out=[x,y]"] [] with
  | Some o => lookup ["generate"; "cpp"; "out"] (Node (effective file o)) = Some (Leaf "b") /\
              lookup ["generate"; "cpp"; "namespace"] (Node (effective file o)) = Some (Leaf "n") /\
              lookup ["generate"; "java"; "out"] (Node (effective file o)) = Some (LList ["x"; "y"])
  | None => False
  end.
Proof. vm_compute. repeat split. Qed.

Example C17_lattice_example :
  generate_outcome targets ["cpp"; "java"] "java" = AConfig "generator.jni" /\
  generate_outcome targets ["cpp"; "java"; "jni"] "java" = AOk /\
  generate_outcome targets ["cpp"] "nope" = AUnknownTarget /\
  parse_outcome targets true ["java"] = AConfig "generate.jni".
Proof. vm_compute. repeat split. Qed.
