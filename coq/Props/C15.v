(* C15 - No generated file is silently overwritten by another declaration. *)
From Coq Require Import List String Bool Arith.
From PDV Require Import Lib.StrUtil Marshal.Ident Marshal.IdentProofs Marshal.Files Marshal.FilesProofs Sys.Writer Sys.WriterProofs.
Import ListNotations.
Open Scope string_scope. Open Scope list_scope.

(* writer level, every operation sequence: pairwise distinct paths => no path receives two contents *)
Theorem C15_single_writer : forall ops keys,
  NoDup (written_paths ops) ->
  forall p c1 c2, In (p, c1) (w_log (run ops (init keys))) -> In (p, c2) (w_log (run ops (init keys))) -> c1 = c2.
Proof. exact single_writer. Qed.
Print Assumptions C15_single_writer.

(* cpp / cppcli file names: the namespace is part of the path, so equal paths mean equal namespace and equal converted name *)
Theorem C15_namespace_dirs_injective : forall file ext ns name ns' name',
  Forall seg_ok ns -> Forall seg_ok ns' ->
  seg_ok (conv file name ++ "." ++ ext) -> seg_ok (conv file name' ++ "." ++ ext) ->
  ns_file file ext ns name = ns_file file ext ns' name' -> ns = ns' /\ conv file name = conv file name'.
Proof. exact ns_file_injective. Qed.
Print Assumptions C15_namespace_dirs_injective.

Theorem C15_cpp_injective_on_canonical_names : forall ext ns name ns' name',
  Forall seg_ok ns -> Forall seg_ok ns' ->
  seg_ok (lower name ++ "." ++ ext) -> seg_ok (lower name' ++ "." ++ ext) ->
  lower name = name -> lower name' = name' ->
  ns_file (SSnake, None) ext ns name = ns_file (SSnake, None) ext ns' name' -> ns = ns' /\ name = name'.
Proof. exact cpp_file_injective. Qed.
Print Assumptions C15_cpp_injective_on_canonical_names.

(* REFUTED on the current tree, one witness per recorded finding *)
Theorem C15_jni_refuted : forall file ext, exists ns ns' name, ns <> ns' /\ flat_file file ext ns name = flat_file file ext ns' name.
Proof. exact flat_file_collides. Qed.
Theorem C15_objcpp_refuted : forall ext, exists ns ns' name, ns <> ns' /\ objcpp_file ext ns name = objcpp_file ext ns' name.
Proof. exact objcpp_file_collides. Qed.
Theorem C15_yaml_refuted : exists ns ns' name, ns <> ns' /\ yaml_file ns name = yaml_file ns' name.
Proof. exact yaml_file_collides. Qed.
Theorem C15_objc_refuted : exists ns name ns' name', (ns, name) <> (ns', name') /\
    objc_file "" (SPascal, None) "h" ns name = objc_file "" (SPascal, None) "h" ns' name'.
Proof. exact objc_file_collides. Qed.
Theorem C15_style_conversion_refuted : exists name name', name <> name' /\
    ns_file (SSnake, None) "hpp" ["n"] name = ns_file (SSnake, None) "hpp" ["n"] name'.
Proof. exact style_conversion_collides. Qed.
Print Assumptions C15_objc_refuted.
