(* C07 - JNI glue and generated Java agree on every class, member and native symbol.
   Structure: the JVM/JNI specification fragments (Lang/Jvm.v: descriptor of a Java source type, method descriptor,
   short native name, C type of a descriptor) vs the model of jni/type.py + java/type.py (Marshal/Jni.v, tied to the
   code by the K-jni correspondence). *)
From Coq Require Import List String Ascii Bool Arith.
From PDV Require Import Lib.StrUtil Lang.Jvm Marshal.Jni Marshal.JniProofs Gen.ExternalTypes Jinja.Tir Jinja.Interp Gen.Templates Jinja.FragFlags Jinja.FragRecord Jinja.FragJni Jinja.Inline Jinja.FragJniExport.
Import ListNotations.
Open Scope string_scope.

(* every built-in type of the regenerated external-type tables: JNI signature = descriptor of the Java type, plain and boxed *)
Theorem C07_builtin_signatures : Forall agrees builtin_infos.
Proof. exact builtins_agree. Qed.
Print Assumptions C07_builtin_signatures.

(* every declared type: L<class_descriptor>; = descriptor of <package>.<Name> for all packages and names *)
Theorem C07_class_descriptor : forall pkg name, plain_pkg pkg = true -> plain name = true ->
  descriptor_of_src (decl_java_typename pkg name) = decl_type_signature pkg name.
Proof. exact decl_descriptor. Qed.
Print Assumptions C07_class_descriptor.

Theorem C07_flags_descriptor : forall x, descriptor_of_src ("java.util.EnumSet" ++ "<" ++ x) = "Ljava/util/EnumSet;".
Proof. exact flags_descriptor. Qed.
Print Assumptions C07_flags_descriptor.

(* every method, constructor and invoke lookup, for any parameter list / result / async *)
Theorem C07_method_lookup : forall params ret async,
  Forall (fun r => agrees (tr_ty r)) params -> (forall r, ret = Some r -> agrees (tr_ty r)) ->
  type_signature params ret async = method_descriptor (map (data_type false) params) (return_type ret async).
Proof. exact method_signature_agrees. Qed.
Print Assumptions C07_method_lookup.

Theorem C07_field_lookup : forall r, agrees (tr_ty r) -> ref_sig r = descriptor_of_src (data_type false r).
Proof. exact field_signature_agrees. Qed.
Print Assumptions C07_field_lookup.

(* native symbol: prefix and method name are the JNI short name, for all packages/classes/methods made of identifier characters *)
Theorem C07_native_symbol : forall pkg name static method,
  Forall (fun s => jident s = true) (split_on "."%char pkg ++ [name])%list -> jmethod method = true ->
  proxy_symbol pkg name static method =
  native_symbol (join "/" (split_on "."%char pkg ++ [name])%list ++ "$CppProxy") ((if static then "" else "native_") ++ method).
Proof. exact proxy_symbol_is_jni_name. Qed.
Print Assumptions C07_native_symbol.

Theorem C07_jni_prefix : forall segs, segs <> [] -> Forall (fun s => jident s = true) segs ->
  jni_prefix segs = "Java_" ++ mangle (join "/" segs).
Proof. exact jni_prefix_is_mangled. Qed.
Print Assumptions C07_jni_prefix.

(* C types of the native prototypes: parameter and result types fit the descriptors, optional primitives are jobject *)
Theorem C07_native_ctypes : forall r, native_agrees (tr_ty r) = true -> ctype_ok (get_typename r) (ref_sig r) = true.
Proof. exact native_param_ctype. Qed.
Print Assumptions C07_native_ctypes.

Theorem C07_builtin_ctypes : forallb native_agrees builtin_infos = true.
Proof. exact builtins_native_agree. Qed.
Print Assumptions C07_builtin_ctypes.

Theorem C07_declared_ctypes : forall pkg name jt jb,
  native_agrees (mktyinfo (decl_type_signature pkg name) (decl_type_signature pkg name) "jobject" jt jb) = true.
Proof. exact decl_native_agrees. Qed.
Print Assumptions C07_declared_ctypes.

(* ---- as printed: the look-up lines of the JNI header templates translated from /repo on this run ---- *)
Theorem C07_record_field_lookups_as_printed : forall fl,
  exec cpp_cfg rec_field_loop (jstate fl) = (jstate fl, concat "" (map field_lookup_line fl)).
Proof. exact rec_field_lookups_render. Qed.
Print Assumptions C07_record_field_lookups_as_printed.

(* the constructor signature literal "(" <loop> ")V" of the record header is the JVM descriptor of the Java constructor *)
Theorem C07_record_constructor_as_printed : forall fl, Forall (fun f => agrees (tr_ty (jf_ref f))) fl ->
  ("(" ++ snd (exec cpp_cfg rec_sig_loop (jstate fl)) ++ ")V")%string = method_descriptor (map (fun f => data_type false (jf_ref f)) fl) "void".
Proof.
  intros fl H. rewrite rec_constructor_signature_renders. cbn [snd].
  pose proof (method_signature_agrees (map jf_ref fl) None false) as M.
  unfold type_signature in M. rewrite !map_map in M. cbv [return_type] in M. rewrite <- M.
  - reflexivity.
  - rewrite Forall_map. exact H.
  - intros r E. discriminate E.
Qed.
Print Assumptions C07_record_constructor_as_printed.

Theorem C07_method_lookups_as_printed : forall ml,
  exec cpp_cfg meth_lookup_loop (mstate ml) = (mstate ml, concat "" (map method_lookup_line ml)).
Proof. exact method_lookups_render. Qed.
Print Assumptions C07_method_lookups_as_printed.

Theorem C07_lookup_loops_are_the_templates :
  Slice.nth_for "fields" 0 t_jni_header_record_jinja2_hpp = Some rec_sig_loop /\
  Slice.nth_for "fields" 1 t_jni_header_record_jinja2_hpp = Some rec_field_loop /\
  Slice.nth_for "methods" 1 t_jni_header_interface_jinja2_hpp = Some meth_lookup_loop.
Proof. repeat split; vm_compute; reflexivity. Qed.
Print Assumptions C07_lookup_loops_are_the_templates.

(* the exported native functions as printed: every iteration of the JNIEXPORT loop (base-template macros expanded) starts with the
   prototype  JNIEXPORT <ret> JNICALL <prefix>_00024CppProxy_[native_1]<name, _ -> _1>(JNIEnv*, jclass | jobject, jlong {, <ctype> <name>}) noexcept { *)
Theorem C07_native_prototype_as_printed : forall prefix tdo m idx last others ns, exists st' tail,
  execs cpp_cfg (proto_stmts ++ rest_stmts) (mkst (iter_scope prefix tdo m (loopv idx (Nat.eqb idx 0) last) others) ns)
  = (st', (proto prefix m ++ tail)%string).
Proof. exact export_iteration_starts_with_prototype. Qed.
Print Assumptions C07_native_prototype_as_printed.

Theorem C07_export_loop_is_the_template :
  match Slice.nth_for "methods" 1 t_jni_source_interface_jinja2_cpp with
  | Some f => inline 4 (macros_of t_jni_base_jinja2 ++ macros_of t_jni_source_interface_jinja2_cpp) [f]
  | None => []
  end = [SFor "method" (EAttr (EVar "type_def") "methods") None (proto_stmts ++ rest_stmts)].
Proof. vm_compute. reflexivity. Qed.
Print Assumptions C07_export_loop_is_the_template.

(* ... and the symbol in that prototype is the JNI short name of the Java native method *)
Theorem C07_printed_symbol_is_jni_short_name : forall pkg name m,
  Forall (fun s => jident s = true) (split_on "."%char pkg ++ [name])%list -> jmethod (xm_name m) = true ->
  (decl_jni_prefix pkg name ++ "_00024CppProxy_" ++ (if xm_static m then "" else "native_1") ++
   replace_all "_" "_1" (xm_name m) (S (String.length (xm_name m))))%string
  = native_symbol (join "/" (split_on "."%char pkg ++ [name])%list ++ "$CppProxy") ((if xm_static m then "" else "native_") ++ xm_name m).
Proof. intros pkg name m H1 H2. rewrite printed_symbol_is_proxy_symbol. now apply proxy_symbol_is_jni_name. Qed.
Print Assumptions C07_printed_symbol_is_jni_short_name.

(* non-vacuity: a method  f(a: i32?, b: list<string>) -> com.ex.Foo  *)
Example C07_example :
  let i32 := mktyinfo "I" "Ljava/lang/Integer;" "jint" "int" "Integer" in
  let str := mktyinfo "Ljava/lang/String;" "Ljava/lang/String;" "jstring" "String" "String" in
  let lst := mktyinfo "Ljava/util/ArrayList;" "Ljava/util/ArrayList;" "jobject" "java.util.ArrayList" "java.util.ArrayList" in
  let foo := mktyinfo (decl_type_signature "com.ex" "Foo") (decl_type_signature "com.ex" "Foo") "jobject" "com.ex.Foo" "com.ex.Foo" in
  type_signature [TRef true i32 []; TRef false lst [TRef false str []]] (Some (TRef false foo [])) false
    = "(Ljava/lang/Integer;Ljava/util/ArrayList;)Lcom/ex/Foo;"
  /\ map (data_type false) [TRef true i32 []; TRef false lst [TRef false str []]] = ["Integer"; "java.util.ArrayList<String>"]
  /\ map get_typename [TRef true i32 []; TRef false lst [TRef false str []]] = ["jobject"; "jobject"]
  /\ proxy_symbol "com.my_app" "Foo" false "do_it" = "Java_com_my_1app_Foo_00024CppProxy_native_1do_1it".
Proof. vm_compute. repeat split; reflexivity. Qed.
