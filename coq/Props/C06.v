(* C06 - Parsing any input terminates with an AST or positioned diagnostics only.
   Proved: termination (fuel-bounded import recursion whose exhaustion is the circular-import diagnostic, structural
   recursion elsewhere) and absence of internal errors in everything after the tree walk - deferred resolution, generic
   checks, rule checks - for ALL references, registries and declaration lists.  The tree walk itself is total on
   grammar-conformant trees only by correspondence (K-front); on error-recovered trees the real visitor does crash:
   that is the recorded finding C06-K1, and the model reproduces those crashes (Crash outcomes are compared too). *)
From Coq Require Import List String Bool Arith.
From PDV Require Import Idl.GrammarDefs Idl.Lexer Idl.ParserG Idl.LexParseProofs Gen.Grammar.
From PDV Require Import Lib.StrUtil Idl.Cst Idl.Ast Idl.Resolver Idl.Visitor Idl.Front Idl.ChecksProofs Idl.ImportProofs.
Import ListNotations.
Open Scope string_scope. Open Scope list_scope.

Theorem C06_resolution_never_crashes : forall e refs s, exists l s', mmap (resolve_ref e) refs s = Ok (l, s').
Proof. exact resolve_all_total. Qed.
Print Assumptions C06_resolution_never_crashes.

Theorem C06_one_reference_never_crashes : forall e r s, exists s', resolve_ref e r s = Ok (tt, s').
Proof. exact resolve_ref_total. Qed.
Print Assumptions C06_one_reference_never_crashes.

(* the rule checks are a total function of bindings and declarations: unresolved references (None) are skipped *)
Theorem C06_checks_ignore_unresolved : forall b t, tref_prim b t = None ->
  check_throws b (Some [t]) = [] /\ check_ret b "x" (Some t) = [] /\ is_prim b t PError = false.
Proof.
  intros b t H. unfold check_throws, check_ret, is_prim. cbn. rewrite H. repeat split.
Qed.
Print Assumptions C06_checks_ignore_unresolved.

Theorem C06_import_recursion_bounded : forall w keys der inc idl ip s,
  exists p, parse w keys der inc 0 idl ip s = Ok p /\ pr_ok p = false /\
            map d_tag (s_errors (pr_state p)) = ["circular-indirect"].
Proof. exact fuel_exhaustion_is_diagnostic. Qed.
Print Assumptions C06_import_recursion_bounded.

(* ---- from the character sequence: the lexer of the grammar translated from Idl.g4 (model Idl/Lexer.v, tied to ANTLR's generated
   lexer/parser by K-parse).  For EVERY character sequence lexing terminates within |input| steps, and the lexemes - tokens, skipped
   white space, characters no rule accepts - partition the input.  The statement holds for every rule table, hence for today's. *)
Theorem C06_lexing_terminates_on_every_input : forall s, exists ls, lex_all lexer_rules s = Some ls /\ concat_lexemes ls = s.
Proof. exact (lex_all_total lexer_rules). Qed.
Print Assumptions C06_lexing_terminates_on_every_input.

Theorem C06_lexing_step_bound : forall rules steps s line col, String.length s <= steps -> lex_from steps rules s line col <> None.
Proof. exact lex_total. Qed.
Print Assumptions C06_lexing_step_bound.

(* the parser model is a total function too (structural recursion on its fuel): a text is either parsed or rejected *)
Example C06_parse_examples :
  (exists k, parse_text lexer_rules parser_rules start_rule "foo = enum { a; b; }" = Some k) /\
  parse_text lexer_rules parser_rules start_rule "foo = enum { a b; }" = None /\
  parse_text lexer_rules parser_rules start_rule "foo = ;" = None /\
  parse_text lexer_rules parser_rules start_rule "$" = None.
Proof. split; [eexists; vm_compute; reflexivity | vm_compute; repeat split; reflexivity]. Qed.

(* refuted in full generality, with a witness: a tree as ANTLR's error recovery returns it for `foo = ;`
   (typeDecl without any alternative and without a stop token) makes the visitor fail internally *)
Definition no_crash_property (c : cst) : Prop :=
  forall e s t, visit_type_decl e c s <> Crash t.
Theorem C06_no_crash_refuted : exists c, ~ no_crash_property c.
Proof.
  exists (R "typeDecl" (Some (1, 0)) None []). intros H.
  apply (H (mkenv "f" [] [] []) (mkvst [] [] [] [] [] [] [] 0 []) "position: ctx.stop is None"). reflexivity.
Qed.
Print Assumptions C06_no_crash_refuted.
