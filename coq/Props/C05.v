(* C05 - Documented semantic restrictions are enforced everywhere, and all are reported. *)
From Coq Require Import List String Bool Arith.
From PDV Require Import Lib.StrUtil Idl.Cst Idl.Ast Idl.Resolver Idl.Visitor Idl.Front Idl.ChecksProofs.
Import ListNotations.
Open Scope string_scope. Open Scope list_scope.

(* sound and complete: the diagnostics of the post-resolution pass are exactly the rule violations, whatever the number
   of declarations, the member index, the namespace depth or the file a declaration came from *)
Theorem C05_sound_complete : forall b ds x,
  In x (post_checks b ds) <-> exists d, In d ds /\ decl_violation b d x.
Proof. exact post_checks_spec. Qed.
Print Assumptions C05_sound_complete.

Theorem C05_accept_iff : forall b ds,
  post_checks b ds = [] <-> forall d x, In d ds -> ~ decl_violation b d x.
Proof. exact post_checks_accept_iff. Qed.
Print Assumptions C05_accept_iff.

(* imported declarations are checked like local ones *)
Theorem C05_imports_checked : forall b ds1 ds2,
  post_checks b (ds1 ++ ds2) = post_checks b ds1 ++ post_checks b ds2.
Proof. exact post_checks_app. Qed.
Print Assumptions C05_imports_checked.

(* generic arguments: one resolved reference is accepted iff it has no arguments or exactly the arity of its type *)
Theorem C05_generic_arity : forall e r s s' td,
  bound (rs_rid r) (s_binds s) = None -> resolve (s_reg s) (rs_ns r) (rs_name r) = Some td ->
  resolve_ref e r s = Ok (tt, s') ->
  s_binds s' = s_binds s ++ [(rs_rid r, td)] /\
  (s_errors s' = s_errors s <-> (rs_nparams r = 0 \/ (td_params td <> [] /\ rs_nparams r = List.length (td_params td)))).
Proof. exact resolve_ref_binds. Qed.
Print Assumptions C05_generic_arity.

Theorem C05_unknown_reported : forall e r s s',
  bound (rs_rid r) (s_binds s) = None -> resolve (s_reg s) (rs_ns r) (rs_name r) = None ->
  resolve_ref e r s = Ok (tt, s') ->
  s_errors s' = s_errors s ++ [mkdiag "Resolver.TypeResolvingException" 170 (p_file (rs_pos r)) (p_sl (rs_pos r)) (p_sc (rs_pos r)) "unknown-type"].
Proof. exact resolve_ref_unknown. Qed.
Print Assumptions C05_unknown_reported.

(* non-vacuity: the third field of the second record violates a rule and is reported, the others are not *)
Example C05_example :
  let p := mkpos "f" 1 0 1 1 in
  let td_i := mktdef "itf" [] PInterface [] in
  let b := [(7, td_i)] in
  let good := mkfield "a" p None (TData "i32" [] p [] false 1) in
  let bad := mkfield "c" (mkpos "f" 9 4 9 9) None (TData "itf" [] (mkpos "f" 9 7 9 10) [] false 7) in
  let ds := [DRecord (mkcommon "r1" [] p None) [good] [] [] []; DRecord (mkcommon "r2" ["n"] p None) [good; good; bad] [] [] []] in
  map d_tag (post_checks b ds) = ["interface-field"] /\ map d_line (post_checks b ds) = [9].
Proof. vm_compute. split; reflexivity. Qed.
