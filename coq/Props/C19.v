(* C19 - CLI exit status follows the documented return-code table; CLI equals API. *)
From Coq Require Import List String Bool Arith.
From PDV Require Import Gen.ReturnCodes Sys.Cli Sys.CliProofs.
Import ListNotations.
Open Scope string_scope. Open Scope list_scope.

Theorem C19_status_zero_iff_success : forall tbl o,
  codes_positive tbl = true -> (exit_status tbl o = Some 0 <-> o = Success).
Proof. exact exit_status_zero_iff. Qed.
Print Assumptions C19_status_zero_iff_success.

Theorem C19_first_reported_error : forall tbl c rest,
  exit_status tbl (AppList (c :: rest)) = exit_status tbl (AppExc c).
Proof. exact exit_status_first_error. Qed.
Print Assumptions C19_first_reported_error.

Theorem C19_status_identifies_class : forall tbl c1 c2 n,
  codes_distinct tbl = true -> NoDup (map (fun e => fst (fst e)) tbl) ->
  code_of c1 tbl = Some n -> code_of c2 tbl = Some n -> c1 = c2.
Proof. exact exit_status_injective. Qed.
Print Assumptions C19_status_identifies_class.

(* finite, over the exception classes and return-code table reflected from /repo on this run *)
Theorem C19_table_ok :
  codes_positive exception_classes = true /\ codes_distinct exception_classes = true /\
  documented exception_classes return_codes = true.
Proof. exact (conj table_codes_positive (conj table_codes_distinct table_documented)). Qed.
Print Assumptions C19_table_ok.

Theorem C19_cli_api : forall clean ts, cli_ops clean ts = api_ops clean ts.
Proof. exact cli_ops_eq_api_ops. Qed.
Print Assumptions C19_cli_api.

Theorem C19_clean_every_target : forall clean ts t c,
  In (Generate t c) (cli_ops clean ts) -> c = clean /\ In t ts.
Proof. exact cli_clean_every_target. Qed.
Print Assumptions C19_clean_every_target.

Theorem C19_first_failure_decides : forall pre o post fails e,
  (forall x, In x pre -> fails x = None) -> fails o = Some e ->
  run_ops (pre ++ o :: post) fails = (e, pre ++ [o]).
Proof. exact run_ops_first_failure. Qed.
Print Assumptions C19_first_failure_decides.

Example C19_example :
  exit_status exception_classes (AppList ["Resolver.TypeResolvingException"; "Parser.ParsingException"]) = Some 170 /\
  exit_status exception_classes (AppExc "ConfigurationException") = Some 141 /\
  exit_status exception_classes (AppExc "FileNotFoundException") = Some 2.
Proof. vm_compute. repeat split. Qed.
