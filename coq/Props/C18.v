(* C18 - Language server answers always reflect the current text of each document.
   Refinement to the spec state docs : uri -> text.  front_of is what one validation of a text yields (in the
   correspondence: what a FRESH server publishes/answers for that text alone). *)
From Coq Require Import List String Bool Arith.
From PDV Require Import Sys.Lsp Sys.LspProofs.
Import ListNotations.
Open Scope string_scope. Open Scope list_scope.

(* after every event sequence (any length, any interleaving of documents) whose texts the front end can judge:
   last published diagnostics = diagnostics of the current text, caches = view of the current text *)
Theorem C18_publish_current : forall (text : Type) (front_of : text -> fout) es s,
  current text front_of s -> judged text front_of es -> current text front_of (fst (run text front_of s es)).
Proof. exact run_current. Qed.
Print Assumptions C18_publish_current.

Theorem C18_initially_current : forall (text : Type) (front_of : text -> fout), current text front_of (init text).
Proof. exact current_init. Qed.
Print Assumptions C18_initially_current.

Theorem C18_definition_from_current_text : forall (text : Type) (front_of : text -> fout) s u t v row col,
  current text front_of s -> get u (docs text s) = Some t -> front_of t = FView v ->
  snd (step text front_of s (GoToDef text u row col)) = OAnswer (find_def row col (v_defs v)).
Proof. exact definition_from_current_text. Qed.
Print Assumptions C18_definition_from_current_text.

Theorem C18_symbols_from_current_text : forall (text : Type) (front_of : text -> fout) s u t v,
  current text front_of s -> get u (docs text s) = Some t -> front_of t = FView v ->
  snd (step text front_of s (Symbols text u)) = OSymbols (Some (v_syms v)).
Proof. exact symbols_from_current_text. Qed.
Print Assumptions C18_symbols_from_current_text.

Theorem C18_close_drops : forall (text : Type) (front_of : text -> fout) s u,
  get u (caches text (fst (step text front_of s (Close text u)))) = None /\
  get u (docs text (fst (step text front_of s (Close text u)))) = None.
Proof. exact close_drops. Qed.
Print Assumptions C18_close_drops.

Theorem C18_query_unknown_document : forall (text : Type) (front_of : text -> fout) s u row col,
  get u (caches text s) = None ->
  snd (step text front_of s (GoToDef text u row col)) = OAnswer None /\ snd (step text front_of s (Symbols text u)) = OSymbols None.
Proof. exact query_unknown_document. Qed.
Print Assumptions C18_query_unknown_document.

(* the only way a handler ends in the error logger: the front end itself fails internally on the new text
   (C06-K1 makes that possible today: recorded as C18-K1) *)
Theorem C18_handlers_total : forall (text : Type) (front_of : text -> fout) s e,
  errlog text (fst (step text front_of s e)) <> errlog text s ->
  exists u t, (e = Open text u t \/ e = Change text u t) /\ front_of t = FCrash.
Proof. exact handlers_total. Qed.
Print Assumptions C18_handlers_total.

Example C18_example :
  let f := fun t : nat => match t with
                          | 0 => FView (mkview [] ["foo"] [(1, 4, Some ("a", 0))])
                          | 1 => FView (mkview [(1, 0, 7)] [] [])
                          | _ => FCrash end in
  snd (run nat f (init nat) [Open nat "a" 1; Change nat "a" 0; GoToDef nat "a" 1 4; Open nat "b" 2; Symbols nat "b"; Close nat "a"; Symbols nat "a"])
  = [OPublished [(1, 0, 7)]; OPublished []; OAnswer (Some ("a", 0)); OFailed; OSymbols None; ONone; OSymbols None].
Proof. vm_compute. reflexivity. Qed.
