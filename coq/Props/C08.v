(* C08 - Enum and flag constants have the same numeric value in every target language.
   Structure: (1) render lemmas - for EVERY flag/item list the loops of the real templates (translated from /repo on this run)
   print one enumerator per flag with the value expression of Lang.EnumBody.flag_enumerators; (2) arithmetic of those
   expressions under C's declare-before-use rule. *)
From Coq Require Import List String Ascii ZArith NArith Bool Arith.
From PDV Require Import Lib.StrUtil Lang.Comment Jinja.Tir Jinja.Interp Jinja.Static Gen.Templates Lang.EnumBody Lang.EnumBodyProofs
                        Jinja.FragFlags Jinja.FragFlagsObjc Jinja.FragFlagsCli Jinja.FragEnums Jinja.LoopPure Jinja.FragEnums2 Jinja.CounterInit Lang.JniFlags.
Import ListNotations.
Open Scope string_scope. Open Scope list_scope.

(* (1) the templates print the specified enumerators - any number of flags, none/all anywhere, comments/deprecations anywhere *)
Theorem C08_cpp_flags_render : forall fl,
  exists c', exec cpp_cfg cpp_flags_loop (mkstate fl 0) = (mkstate fl c', spec_lines fl fl (flags_spec fl)).
Proof. exact cpp_flags_render_spec. Qed.
Print Assumptions C08_cpp_flags_render.

Theorem C08_objc_flags_render : forall tn fl,
  exists c', exec objc_cfg objc_flags_loop (omkstate tn fl 0) = (omkstate tn fl c', olines tn fl fl 0).
Proof. exact objc_flags_loop_renders. Qed.
Print Assumptions C08_objc_flags_render.

Theorem C08_cppcli_flags_render : forall fl,
  exists c', exec cli_cfg cli_flags_loop (cmkstate fl 0) = (cmkstate fl c', clines fl fl 0).
Proof. exact cli_flags_loop_renders. Qed.
Print Assumptions C08_cppcli_flags_render.

Theorem C08_java_flags_render : forall fl,
  exec java_cfg java_flags_loop (jstate fl) = (jstate fl, jlines (filter ordinary fl)).
Proof. exact java_flags_loop_renders. Qed.
Print Assumptions C08_java_flags_render.

Theorem C08_cpp_enum_render : forall il, exec cpp_cfg cpp_enum_loop (estate il) = (estate il, elines il).
Proof. exact cpp_enum_loop_renders. Qed.
Print Assumptions C08_cpp_enum_render.

(* the render lemmas above start from counter 0: every render does - the template itself initialises the counter before the block,
   and the only other assignment sits inside the flags loop (so the numbering of a type cannot depend on types rendered before it) *)
Theorem C08_counter_starts_at_zero_in_every_render :
  counter_disciplined t_cpp_header_flags_jinja2_hpp = true /\
  counter_disciplined t_objc_header_flags_jinja2_h = true /\
  counter_disciplined t_cppcli_header_flags_jinja2_hpp = true.
Proof. exact flags_counters_start_at_zero. Qed.
Print Assumptions C08_counter_starts_at_zero_in_every_render.

(* the other three enum templates: one enumerator per item, in declaration order, never an initialiser - for EVERY item list *)
Theorem C08_java_enum_render : forall tn il,
  exec java_cfg java_enum_loop (e2state "java" tn il) = (e2state "java" tn il, plines java_enum_line il 0).
Proof. exact java_enum_render. Qed.
Print Assumptions C08_java_enum_render.

Theorem C08_objc_enum_render : forall tn il,
  exec objc_cfg objc_enum_loop (e2state "objc" tn il) = (e2state "objc" tn il, plines (objc_enum_line tn) il 0).
Proof. exact objc_enum_render. Qed.
Print Assumptions C08_objc_enum_render.

Theorem C08_cppcli_enum_render : forall tn il,
  exec cli_cfg cli_enum_loop (e2state "cppcli" tn il) = (e2state "cppcli" tn il, plines cli_enum_line il 0).
Proof. exact cli_enum_render. Qed.
Print Assumptions C08_cppcli_enum_render.

(* the k-th printed chunk belongs to the k-th item and ends with its bare name (ObjC: type name + item name) *)
Theorem C08_enum_kth_line : forall tn il k i, nth_error il k = Some i ->
  (exists pre post c, plines java_enum_line il 0 = (pre ++ (c ++ "    " ++ e_name i ++ (if match skipn (S k) il with [] => true | _ => false end then ";" else ",") ++ String nl "") ++ post)%string) /\
  (exists pre post c, plines (objc_enum_line tn) il 0 = (pre ++ (c ++ "    " ++ tn ++ e_name i ++ (if match skipn (S k) il with [] => true | _ => false end then "" else ",") ++ String nl "") ++ post)%string) /\
  (exists pre post c, plines cli_enum_line il 0 = (pre ++ (c ++ "    " ++ e_name i ++ (if match skipn (S k) il with [] => true | _ => false end then "" else ",") ++ String nl "") ++ post)%string).
Proof. exact enum_kth_line. Qed.
Print Assumptions C08_enum_kth_line.

Theorem C08_enum_loops_are_the_templates :
  Slice.nth_for "items" 0 t_java_enum_jinja2_java = Some java_enum_loop /\
  Slice.nth_for "items" 0 t_objc_header_enum_jinja2_h = Some objc_enum_loop /\
  Slice.nth_for "items" 0 t_cppcli_header_enum_jinja2_hpp = Some cli_enum_loop /\
  List.length (Slice.find_fors_in "items" t_java_enum_jinja2_java) = 1 /\
  List.length (Slice.find_fors_in "items" t_objc_header_enum_jinja2_h) = 1 /\
  List.length (Slice.find_fors_in "items" t_cppcli_header_enum_jinja2_hpp) = 1.
Proof. vm_compute. repeat split; reflexivity. Qed.
Print Assumptions C08_enum_loops_are_the_templates.

(* (2) numbering *)
Theorem C08_flag_bits : forall fl i f,
  nth_error (filter ordinary fl) i = Some f -> In (f_name f, VShift i) (flags_spec fl).
Proof. exact flag_bits. Qed.
Print Assumptions C08_flag_bits.

Theorem C08_none_is_zero : forall fl f, In f fl -> f_none f = true -> In (f_name f, VZero) (flags_spec fl).
Proof. exact none_flag_zero. Qed.
Print Assumptions C08_none_is_zero.

Theorem C08_all_is_union : forall fl f, In f fl -> f_none f = false -> f_all f = true ->
  In (f_name f, VOr (ordinary_names fl)) (flags_spec fl).
Proof. exact all_flag_union. Qed.
Print Assumptions C08_all_is_union.

Theorem C08_one_enumerator_per_flag : forall fl, map fst (flags_spec fl) = map f_name fl.
Proof. exact flags_spec_names. Qed.
Print Assumptions C08_one_enumerator_per_flag.

Theorem C08_enum_ordinals : forall names,
  eval_body [] None (enum_spec names) = Some (combine names (map N.of_nat (seq 0 (List.length names)))).
Proof. exact enum_ordinals. Qed.
Print Assumptions C08_enum_ordinals.

(* Java ordinal i <-> bit i of the C-family enumerations (what JniFlags::flags / create rely on: 1u << ordinal) *)
Theorem C08_cross_target : forall fl i f,
  nth_error (filter ordinary fl) i = Some f ->
  In (f_name f, VShift i) (flags_spec fl) /\ nth_error (map fst (java_flags_spec fl)) i = Some (f_name f).
Proof. exact cross_target. Qed.
Print Assumptions C08_cross_target.

(* the C++ bit operators are the bitwise operators on the underlying unsigned (finite check on the template text) *)
Theorem C08_bitops_text :
  forallb (tmpl_mentions t_cpp_header_flags_jinja2_hpp)
    ["static_cast<unsigned>(lhs) | static_cast<unsigned>(rhs)"; "static_cast<unsigned>(lhs) & static_cast<unsigned>(rhs)";
     "static_cast<unsigned>(lhs) ^ static_cast<unsigned>(rhs)"; "(~static_cast<unsigned>(x))"; "return lhs = lhs | rhs";
     "return lhs = lhs & rhs"; "return lhs = lhs ^ rhs"] = true.
Proof. vm_compute. reflexivity. Qed.
Print Assumptions C08_bitops_text.

(* (3) marshalling: the flags conversion of the JNI support library (JniFlags::flags / JniFlags::create on 32-bit unsigned values, model
   Lang/JniFlags.v, exercised by J-runtime on the real support library): sets of ordinals below `bits` survive Java -> C++ -> Java and values
   below 2^bits survive C++ -> Java -> C++, for every flags type with at most 32 ordinary flags *)
Theorem C08_flags_java_cpp_java : forall ords bits, (bits <= 32)%nat -> Forall (fun o => (o < N.of_nat bits)%N) ords ->
  forall i, In i (create (flags_of ords) bits) <-> In i ords.
Proof. exact create_flags_of. Qed.
Print Assumptions C08_flags_java_cpp_java.

Theorem C08_flags_cpp_java_cpp : forall f bits, (bits <= 32)%nat -> (f < 2 ^ N.of_nat bits)%N -> flags_of (create f bits) = f.
Proof. exact flags_of_create. Qed.
Print Assumptions C08_flags_cpp_java_cpp.

(* REFUTED (recorded finding C08-K1): an `all` flag declared before an ordinary flag does not compile in the C family *)
Theorem C08_all_before_ordinary_refuted :
  eval_body [] None (flags_spec [mkflagrec "everything" "" false "" false true; mkflagrec "a" "" false "" false false]) = None.
Proof. exact all_before_ordinary_refuted. Qed.
Print Assumptions C08_all_before_ordinary_refuted.

Example C08_example :
  eval_body [] None (flags_spec [mkflagrec "a" "" false "" false false; mkflagrec "n" "" false "" true false;
                                 mkflagrec "b" "" false "" false false; mkflagrec "every" "" false "" false true])
  = Some [("a", 1%N); ("n", 0%N); ("b", 2%N); ("every", 3%N)].
Proof. exact all_after_ordinary. Qed.
