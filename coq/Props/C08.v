(* C08 - Enum and flag constants have the same numeric value in every target language.
   Structure: (1) render lemmas - for EVERY flag/item list the loops of the real templates (translated from /repo on this run)
   print one enumerator per flag with the value expression of Lang.EnumBody.flag_enumerators; (2) arithmetic of those
   expressions under C's declare-before-use rule. *)
From Coq Require Import List String Ascii ZArith NArith Bool Arith.
From PDV Require Import Lib.StrUtil Jinja.Tir Jinja.Interp Jinja.Static Gen.Templates Lang.EnumBody Lang.EnumBodyProofs
                        Jinja.FragFlags Jinja.FragFlagsObjc Jinja.FragFlagsCli Jinja.FragEnums.
Import ListNotations.
Open Scope string_scope. Open Scope list_scope.

(* (1) the templates print the specified enumerators - any number of flags, none/all anywhere, comments/deprecations anywhere *)
Theorem C08_cpp_flags_render : forall fl,
  exists c', exec cpp_cfg cpp_flags_loop (mkstate fl 0) = (mkstate fl c', spec_lines fl fl (flags_spec fl)).
Proof. exact cpp_flags_render_spec. Qed.
Print Assumptions C08_cpp_flags_render.

Theorem C08_objc_flags_render : forall tn fl,
  exists c', exec objc_cfg objc_flags_loop (omkstate tn fl 0) = (omkstate tn fl c', olines tn fl fl 0).
Proof. exact objc_flags_loop_renders. Qed.
Print Assumptions C08_objc_flags_render.

Theorem C08_cppcli_flags_render : forall fl,
  exists c', exec cli_cfg cli_flags_loop (cmkstate fl 0) = (cmkstate fl c', clines fl fl 0).
Proof. exact cli_flags_loop_renders. Qed.
Print Assumptions C08_cppcli_flags_render.

Theorem C08_java_flags_render : forall fl,
  exec java_cfg java_flags_loop (jstate fl) = (jstate fl, jlines (filter ordinary fl)).
Proof. exact java_flags_loop_renders. Qed.
Print Assumptions C08_java_flags_render.

Theorem C08_cpp_enum_render : forall il, exec cpp_cfg cpp_enum_loop (estate il) = (estate il, elines il).
Proof. exact cpp_enum_loop_renders. Qed.
Print Assumptions C08_cpp_enum_render.

(* (2) numbering *)
Theorem C08_flag_bits : forall fl i f,
  nth_error (filter ordinary fl) i = Some f -> In (f_name f, VShift i) (flags_spec fl).
Proof. exact flag_bits. Qed.
Print Assumptions C08_flag_bits.

Theorem C08_none_is_zero : forall fl f, In f fl -> f_none f = true -> In (f_name f, VZero) (flags_spec fl).
Proof. exact none_flag_zero. Qed.
Print Assumptions C08_none_is_zero.

Theorem C08_all_is_union : forall fl f, In f fl -> f_none f = false -> f_all f = true ->
  In (f_name f, VOr (ordinary_names fl)) (flags_spec fl).
Proof. exact all_flag_union. Qed.
Print Assumptions C08_all_is_union.

Theorem C08_one_enumerator_per_flag : forall fl, map fst (flags_spec fl) = map f_name fl.
Proof. exact flags_spec_names. Qed.
Print Assumptions C08_one_enumerator_per_flag.

Theorem C08_enum_ordinals : forall names,
  eval_body [] None (enum_spec names) = Some (combine names (map N.of_nat (seq 0 (List.length names)))).
Proof. exact enum_ordinals. Qed.
Print Assumptions C08_enum_ordinals.

(* Java ordinal i <-> bit i of the C-family enumerations (what JniFlags::flags / create rely on: 1u << ordinal) *)
Theorem C08_cross_target : forall fl i f,
  nth_error (filter ordinary fl) i = Some f ->
  In (f_name f, VShift i) (flags_spec fl) /\ nth_error (map fst (java_flags_spec fl)) i = Some (f_name f).
Proof. exact cross_target. Qed.
Print Assumptions C08_cross_target.

(* the C++ bit operators are the bitwise operators on the underlying unsigned (finite check on the template text) *)
Theorem C08_bitops_text :
  forallb (tmpl_mentions t_cpp_header_flags_jinja2_hpp)
    ["static_cast<unsigned>(lhs) | static_cast<unsigned>(rhs)"; "static_cast<unsigned>(lhs) & static_cast<unsigned>(rhs)";
     "static_cast<unsigned>(lhs) ^ static_cast<unsigned>(rhs)"; "(~static_cast<unsigned>(x))"; "return lhs = lhs | rhs";
     "return lhs = lhs & rhs"; "return lhs = lhs ^ rhs"] = true.
Proof. vm_compute. reflexivity. Qed.
Print Assumptions C08_bitops_text.

(* REFUTED (recorded finding C08-K1): an `all` flag declared before an ordinary flag does not compile in the C family *)
Theorem C08_all_before_ordinary_refuted :
  eval_body [] None (flags_spec [mkflagrec "everything" "" false "" false true; mkflagrec "a" "" false "" false false]) = None.
Proof. exact all_before_ordinary_refuted. Qed.
Print Assumptions C08_all_before_ordinary_refuted.

Example C08_example :
  eval_body [] None (flags_spec [mkflagrec "a" "" false "" false false; mkflagrec "n" "" false "" true false;
                                 mkflagrec "b" "" false "" false false; mkflagrec "every" "" false "" false true])
  = Some [("a", 1%N); ("n", 0%N); ("b", 2%N); ("every", 3%N)].
Proof. exact all_after_ordinary. Qed.
