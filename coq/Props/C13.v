(* C13 - Exported type YAML re-imports to the same types (extern round trip). *)
From Coq Require Import List String Ascii Bool.
From PDV Require Import Lib.StrUtil Marshal.Yaml Marshal.YamlProofs Gen.TypeDefReads.
Import ListNotations.
Open Scope string_scope.

(* everything that is exported loads back unchanged *)
Theorem C13_fields_roundtrip : forall e, wf e = true -> import (export e) = Some e.
Proof. exact import_export. Qed.
Print Assumptions C13_fields_roundtrip.

(* dependants' Python code reads through a type reference only exported fields (AST scan of generator/**/*.py, regenerated each run) *)
Theorem C13_python_reads_exported : forallb (fun p => exported (snd (fst p)) (snd p)) typedef_reads_py = true.
Proof. vm_compute. reflexivity. Qed.
Print Assumptions C13_python_reads_exported.

(* dependants' templates (all 69, regenerated each run): direct reads  X.type_def.<gen>.<attr>  are all exported ... *)
Theorem C13_template_reads_exported : forallb (fun p => exported (fst p) (snd p)) template_reads = true.
Proof. vm_compute. reflexivity. Qed.
Print Assumptions C13_template_reads_exported.

(* ... and the reads through a variable bound to a referenced definition ({% set error_domain = ref.type_def %}) are exported
   EXCEPT exactly these six, all on error domains named after `throws` - the recorded finding C13-K1 *)
Theorem C13_unexported_reads_are_the_known_ones :
  unexported_reads = [("jni", "namespace"); ("jni", "name"); ("", "error_codes"); ("objc", "domain_name"); ("objcpp", "namespace"); ("objcpp", "name")].
Proof. vm_compute. reflexivity. Qed.
Print Assumptions C13_unexported_reads_are_the_known_ones.

Example C13_example :
  let e := mkext "kind" ["lib"] "enum" [] (SBool false) None
                 [("cpp", [("by_value", SBool true); ("header", SStr "lib/kind.hpp"); ("typename", SStr "::lib::Kind")]);
                  ("java", [("boxed", SStr "com.ex.lib.Kind"); ("typename", SStr "com.ex.lib.Kind")])] in
  wf e = true /\ import (export e) = Some e /\ List.length (export e) = 7.
Proof. vm_compute. repeat split; reflexivity. Qed.
