(* C12 - IDL comments only ever become documentation; they cannot alter generated code. *)
From Coq Require Import List String Ascii Bool Arith.
From PDV Require Import Lib.StrUtil Lang.Comment Lang.CommentProofs Lang.Lexical.
Import ListNotations.
Open Scope string_scope. Open Scope list_scope.

(* whatever characters the (rendered) comment contains, the generated block comment is closed exactly once, at its end *)
Theorem C12_comment_closed : forall content,
  exists body, comment_filter (Some BLOCK_START) (Some BLOCK_END) BLOCK_PREFIX content = (body ++ "*/")%string /\
               has_term body = false /\ ends_star body = false.
Proof. exact comment_closed_only_at_end. Qed.
Print Assumptions C12_comment_closed.

(* line-comment generators: every output line starts with the prefix, so no text can leave the comment *)
Theorem C12_line_comment : forall prefix content,
  comment_filter None None prefix content = (prefix ++ join (String nl prefix) (map fix_line (split_on nl (flatten content))))%string.
Proof. exact line_comment_prefixed. Qed.
Print Assumptions C12_line_comment.

(* whatever characters an @deprecated message contains, the emitted string literal is well formed *)
Theorem C12_deprecated_literal : forall m, lit_ok false (escape_msg m) = true.
Proof. exact deprecated_literal_well_formed. Qed.
Print Assumptions C12_deprecated_literal.

Theorem C12_escape_is_per_character : forall m, escape_msg m = esc_map (flatten m).
Proof. exact escape_msg_is_esc_map. Qed.
Print Assumptions C12_escape_is_per_character.

Theorem C12_neutralized_text_has_no_terminator : forall s, has_term (neutralize s) = false.
Proof. exact neutralize_no_term. Qed.
Print Assumptions C12_neutralized_text_has_no_terminator.

(* ---- translation phases that run before comments are recognised ---- *)
(* Java: javac translates unicode escapes first (JLS 3.3, Lexical.jtrans).  The Javadoc comment as written by the Java generator
   (rendered text through jneut = text.replace("\u", "&#92;u") in java/type.py, then the comment filter) contains no backslash-u pair:
   javac reads exactly the text that was written, and that text is closed once, at its end - whatever the comment contains. *)
Theorem C12_java_comment_closed_after_unicode_translation : forall rendered,
  jtrans (java_doc rendered) = Some (java_doc rendered) /\
  exists body, java_doc rendered = (body ++ "*/")%string /\ has_term body = false /\ ends_star body = false.
Proof. exact java_doc_closed. Qed.
Print Assumptions C12_java_comment_closed_after_unicode_translation.

(* without that repair the statement is false (the defect that was repaired in /repo): \u002a/ closes the comment, C:\users does not compile *)
Theorem C12_java_unrepaired_refuted :
  (exists t, jtrans (comment_filter0 (Some BLOCK_START) (Some BLOCK_END) BLOCK_PREFIX "x \u002a/ int evil; /\u002a") = Some t /\
             t = ("/**" ++ String nl " * x */ int evil; /*" ++ String nl " */")%string) /\
  jtrans (comment_filter0 (Some BLOCK_START) (Some BLOCK_END) BLOCK_PREFIX "see C:\users\me") = None.
Proof. exact java_doc_unrepaired_refuted. Qed.
Print Assumptions C12_java_unrepaired_refuted.

(* C family: a '//' line that ends in a backslash (blanks may follow) is spliced with the next line before comments are recognised.
   With the repair in Generator.comment_filter (Lexical.fix_line) no physical line of the generated line comment dangles, and every
   line carries the prefix: the declaration that follows the comment is never swallowed. *)
Theorem C12_line_comment_never_splices : forall prefix content, has_char bslash prefix = false ->
  line_doc prefix content = join (String nl "") (line_doc_lines prefix content) /\
  Forall (fun l => dangling l = false /\ exists r, l = (prefix ++ r)%string) (line_doc_lines prefix content).
Proof. exact line_doc_safe. Qed.
Print Assumptions C12_line_comment_never_splices.

Theorem C12_line_comment_unrepaired_refuted :
  exists l, In l (split_on nl (comment_filter0 None None "/// " "path C:\")) /\ dangling l = true.
Proof. exact line_doc_unrepaired_refuted. Qed.
Print Assumptions C12_line_comment_unrepaired_refuted.

(* Jinja's indent filter breaks lines with str.splitlines(): the generated comment contains no (single-byte) character that splitlines treats as
   a line break besides the newline, so no text of an indented '///' comment can start a line of its own without the prefix *)
Theorem C12_no_other_line_separator_survives : forall start end_ prefix content,
  no_sep prefix = true -> (match start with Some s => no_sep s | None => true end) = true -> (match end_ with Some e => no_sep e | None => true end) = true ->
  no_sep (comment_filter start end_ prefix content) = true.
Proof. exact comment_filter_no_sep. Qed.
Print Assumptions C12_no_other_line_separator_survives.

Theorem C12_separator_unrepaired_refuted : no_sep (comment_filter0 None None "/// " ("first " ++ String "012" " int injected;")) = false.
Proof. exact comment_filter0_sep_refuted. Qed.
Print Assumptions C12_separator_unrepaired_refuted.

Theorem C12_deprecated_literal_has_no_line_separator : forall m,
  all_chars (fun c => negb (is_sep c) && negb (Ascii.eqb c nl)) (escape_msg m) = true.
Proof. exact escape_msg_no_sep. Qed.
Print Assumptions C12_deprecated_literal_has_no_line_separator.

(* the repair changes nothing for lines that do not end in a backslash *)
Theorem C12_fix_line_identity : forall s, dangling s = false -> fix_line s = s.
Proof. exact fix_line_id. Qed.
Print Assumptions C12_fix_line_identity.

Example C12_example :
  comment_filter (Some "/**") (Some " */") " * " "evil */ int x; /*" =
    ("/**" ++ String nl " * evil *&#47; int x; /*" ++ String nl " */")%string /\
  escape_msg ("a""b\" ++ String nl "c") = "a\""b\\\nc".
Proof. vm_compute. split; reflexivity. Qed.
