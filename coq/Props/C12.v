(* C12 - IDL comments only ever become documentation; they cannot alter generated code. *)
From Coq Require Import List String Ascii Bool Arith.
From PDV Require Import Lib.StrUtil Lang.Comment Lang.CommentProofs.
Import ListNotations.
Open Scope string_scope. Open Scope list_scope.

(* whatever characters the (rendered) comment contains, the generated block comment is closed exactly once, at its end *)
Theorem C12_comment_closed : forall content,
  exists body, comment_filter (Some BLOCK_START) (Some BLOCK_END) BLOCK_PREFIX content = (body ++ "*/")%string /\
               has_term body = false /\ ends_star body = false.
Proof. exact comment_closed_only_at_end. Qed.
Print Assumptions C12_comment_closed.

(* line-comment generators: every output line starts with the prefix, so no text can leave the comment *)
Theorem C12_line_comment : forall prefix content,
  comment_filter None None prefix content = (prefix ++ join (String nl prefix) (split_on nl content))%string.
Proof. exact line_comment_prefixed. Qed.
Print Assumptions C12_line_comment.

(* whatever characters an @deprecated message contains, the emitted string literal is well formed *)
Theorem C12_deprecated_literal : forall m, lit_ok false (escape_msg m) = true.
Proof. exact deprecated_literal_well_formed. Qed.
Print Assumptions C12_deprecated_literal.

Theorem C12_escape_is_per_character : forall m, escape_msg m = esc_map m.
Proof. exact escape_msg_is_esc_map. Qed.
Print Assumptions C12_escape_is_per_character.

Theorem C12_neutralized_text_has_no_terminator : forall s, has_term (neutralize s) = false.
Proof. exact neutralize_no_term. Qed.
Print Assumptions C12_neutralized_text_has_no_terminator.

Example C12_example :
  comment_filter (Some "/**") (Some " */") " * " "evil */ int x; /*" =
    ("/**" ++ String nl " * evil *&#47; int x; /*" ++ String nl " */")%string /\
  escape_msg ("a""b\" ++ String nl "c") = "a\""b\\\nc".
Proof. vm_compute. split; reflexivity. Qed.
