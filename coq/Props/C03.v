(* C03 - The AST delivered by parsing is a faithful image of the source text.
   Model: Idl/Visitor.v (the ANTLR visitor on the dumped parse tree).  The tree->AST function is tied to the real
   visitor by K-front on the real parse trees of generated programs under many layouts; theorems below cover the parts
   that are quantified over unbounded objects: target-flag sequences of any length, namespace nesting of any depth. *)
From Coq Require Import List String Bool Arith.
From Coq Require Import Ascii.
From PDV Require Import Lib.StrUtil Lang.Comment Idl.Cst Idl.Ast Idl.Resolver Idl.Visitor Idl.TargetsProofs Idl.VisitorProofs Idl.CommentCmd
                        Idl.GrammarDefs Idl.Lexer Idl.ParserG Idl.LexParseProofs Gen.Grammar.
Import ListNotations.
Open Scope string_scope. Open Scope list_scope.

(* the target set computed from a +/- flag sequence of ANY length is the documented denotation *)
Theorem C03_targets_denotation : forall keys flags t,
  In t (eval_targets keys flags) <-> denotes keys flags t.
Proof. exact eval_targets_denotation. Qed.
Print Assumptions C03_targets_denotation.

Theorem C03_targets_plus_only_in_order : forall keys flags,
  minus_names flags = [] -> has_any flags = false -> eval_targets keys flags = plus_names flags.
Proof. exact eval_targets_plus_only. Qed.
Print Assumptions C03_targets_plus_only_in_order.

Theorem C03_targets_sound : forall keys flags t,
  In t (eval_targets keys flags) -> In t keys \/ In t (plus_names flags).
Proof. exact eval_targets_sound. Qed.
Print Assumptions C03_targets_sound.

(* evaluating the flags of one declaration is a function of (supported targets, flags) only: the supported list is
   part of the immutable environment of the visitor (no state is written by visit_targets except diagnostics) *)
Theorem C03_targets_pure : forall e c, pres (visit_targets e c).
Proof. exact pres_visit_targets. Qed.
Print Assumptions C03_targets_pure.

(* namespaces: whatever is visited - any tree, conformant or not, any nesting depth - the current namespace and the
   size stack are restored afterwards ... *)
Theorem C03_namespace_restored : forall e fuel c, pres (visit_ns_content e fuel c) /\ pres (visit_namespace e fuel c).
Proof. intros e fuel c. split; [apply ns_content_restores | apply namespace_restores]. Qed.
Print Assumptions C03_namespace_restored.

(* ... and the members of a block `namespace a.b { ... }` are visited under (enclosing path) ++ [a; b] *)
Theorem C03_namespace_path : forall e vc c s a s',
  namespace_body e vc c s = Ok (a, s') ->
  exists name p children s3 s5,
    a = NNamespace name p (comment_of c) (somes children) /\
    s_ns s3 = s_ns s ++ split_on dot name /\
    mmap vc (rules "namespaceContent" c) s3 = Ok (children, s5).
Proof. exact namespace_children_path. Qed.
Print Assumptions C03_namespace_path.

(* documentation commands (model Idl/CommentCmd.v, tied to markdown_plugins.py + comment_processor.py by K-commands):
   the two documented spellings  @deprecated / \deprecated  (and @param / \param) denote the same thing, for any comment *)
Theorem C03_command_spelling : forall name line, cmd_text name (swap_spelling line) = cmd_text name line.
Proof. exact cmd_text_swap. Qed.
Print Assumptions C03_command_spelling.

Theorem C03_deprecated_spelling_free : forall lines, Forall (fun l => has_char nl l = false) lines -> lines <> [] ->
  deprecated_of (join (String nl "") (map swap_spelling lines)) = deprecated_of (join (String nl "") lines).
Proof. exact deprecated_spelling_free. Qed.
Print Assumptions C03_deprecated_spelling_free.

(* a comment without a deprecated command line leaves the declaration alone; otherwise the last such line decides *)
Theorem C03_no_command_no_deprecation : forall comment,
  Forall (fun l => cmd_text "deprecated" l = None) (split_on nl comment) -> deprecated_of comment = DNo.
Proof. exact no_command_no_deprecation. Qed.
Print Assumptions C03_no_command_no_deprecation.

Theorem C03_last_deprecated_wins : forall before after line t,
  cmd_text "deprecated" line = Some t -> Forall (fun l => cmd_text "deprecated" l = None) after ->
  forall acc, fold_left (fun acc line => match cmd_text "deprecated" line with Some t => dep_of_text t | None => acc end) (before ++ line :: after) acc
              = dep_of_text t.
Proof. exact last_deprecated_wins. Qed.
Print Assumptions C03_last_deprecated_wins.

(* ---- from the text to the parse tree (model: generic lexer + parser on the grammar translated from Idl.g4; tie: K-parse) ----
   nothing of the text is lost or invented by lexing, and every token's recorded line / column is the position reached by reading
   the text in front of it: positions delimit the text of their construct *)
Theorem C03_lexemes_partition_the_text : forall rules steps s line col ls,
  lex_from steps rules s line col = Some ls -> concat_lexemes ls = s.
Proof. exact lex_partition. Qed.
Print Assumptions C03_lexemes_partition_the_text.

Theorem C03_token_positions : forall rules steps s line col ls, lex_from steps rules s line col = Some ls ->
  forall pre t post, ls = pre ++ LexTok t :: post -> (tk_line t, tk_col t) = advance (concat_lexemes pre) line col.
Proof. exact lex_positions. Qed.
Print Assumptions C03_token_positions.

(* the leaves of every parse tree are exactly the tokens of the text, in order, followed by EOF: declarations and members appear in the tree
   in the order in which they are written, none is dropped, none is duplicated - for every text the parser accepts and every grammar *)
Theorem C03_parse_tree_frontier : forall lrules prules start s k, parse_text lrules prules start s = Some k ->
  exists ls, lex_all lrules s = Some ls /\ has_lex_error ls = false /\ leaves k = map leaf (tokens_of ls ++ [eof_token s]).
Proof. exact parse_text_leaves. Qed.
Print Assumptions C03_parse_tree_frontier.

Theorem C03_every_parse_spans_its_tokens : forall rules toks fuel g pos r, In r (ParserG.parse rules toks fuel g pos) ->
  pos <= snd r /\ leaves_l (fst r) = map leaf (span toks pos (snd r)).
Proof. exact parse_frontier. Qed.
Print Assumptions C03_every_parse_spans_its_tokens.

(* white space and line breaks between tokens do not reach the parser: two layouts of one declaration have the same token types and texts *)
Example C03_layout_example :
  let toks s := match lex_all lexer_rules s with Some ls => map (fun t => (tk_type t, tk_text t)) (tokens_of ls) | None => [] end in
  toks ("rec=record{a:list<i32>?;}deriving(eq)") =
  toks ("rec  =  record" ++ String nl "{" ++ String nl "    a : list < i32 > ? ;" ++ String nl "}" ++ String nl "deriving ( eq )" ++ String nl "")%string.
Proof. vm_compute. reflexivity. Qed.

Example C03_targets_examples :
  let keys := ["cpp"; "cppcli"; "java"; "objc"; "yaml"] in
  eval_targets keys ["+cpp"] = ["cpp"] /\ eval_targets keys ["-cpp"] = ["cppcli"; "java"; "objc"; "yaml"] /\
  eval_targets keys ["+any"; "-java"] = ["cpp"; "cppcli"; "objc"; "yaml"] /\
  eval_targets keys ["+java"; "-java"; "+objc"] = ["objc"] /\ eval_targets keys [] = [] /\
  eval_targets keys ["+any"] = keys.
Proof. vm_compute. repeat split. Qed.
