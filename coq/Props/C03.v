(* C03 - The AST delivered by parsing is a faithful image of the source text.
   Model: Idl/Visitor.v (the ANTLR visitor on the dumped parse tree).  The tree->AST function is tied to the real
   visitor by K-front on the real parse trees of generated programs under many layouts; theorems below cover the parts
   that are quantified over unbounded objects: target-flag sequences of any length, namespace nesting of any depth. *)
From Coq Require Import List String Bool Arith.
From PDV Require Import Lib.StrUtil Idl.Cst Idl.Ast Idl.Resolver Idl.Visitor Idl.TargetsProofs Idl.VisitorProofs.
Import ListNotations.
Open Scope string_scope. Open Scope list_scope.

(* the target set computed from a +/- flag sequence of ANY length is the documented denotation *)
Theorem C03_targets_denotation : forall keys flags t,
  In t (eval_targets keys flags) <-> denotes keys flags t.
Proof. exact eval_targets_denotation. Qed.
Print Assumptions C03_targets_denotation.

Theorem C03_targets_plus_only_in_order : forall keys flags,
  minus_names flags = [] -> has_any flags = false -> eval_targets keys flags = plus_names flags.
Proof. exact eval_targets_plus_only. Qed.
Print Assumptions C03_targets_plus_only_in_order.

Theorem C03_targets_sound : forall keys flags t,
  In t (eval_targets keys flags) -> In t keys \/ In t (plus_names flags).
Proof. exact eval_targets_sound. Qed.
Print Assumptions C03_targets_sound.

(* evaluating the flags of one declaration is a function of (supported targets, flags) only: the supported list is
   part of the immutable environment of the visitor (no state is written by visit_targets except diagnostics) *)
Theorem C03_targets_pure : forall e c, pres (visit_targets e c).
Proof. exact pres_visit_targets. Qed.
Print Assumptions C03_targets_pure.

(* namespaces: whatever is visited - any tree, conformant or not, any nesting depth - the current namespace and the
   size stack are restored afterwards ... *)
Theorem C03_namespace_restored : forall e fuel c, pres (visit_ns_content e fuel c) /\ pres (visit_namespace e fuel c).
Proof. intros e fuel c. split; [apply ns_content_restores | apply namespace_restores]. Qed.
Print Assumptions C03_namespace_restored.

(* ... and the members of a block `namespace a.b { ... }` are visited under (enclosing path) ++ [a; b] *)
Theorem C03_namespace_path : forall e vc c s a s',
  namespace_body e vc c s = Ok (a, s') ->
  exists name p children s3 s5,
    a = NNamespace name p (comment_of c) (somes children) /\
    s_ns s3 = s_ns s ++ split_on dot name /\
    mmap vc (rules "namespaceContent" c) s3 = Ok (children, s5).
Proof. exact namespace_children_path. Qed.
Print Assumptions C03_namespace_path.

Example C03_targets_examples :
  let keys := ["cpp"; "cppcli"; "java"; "objc"; "yaml"] in
  eval_targets keys ["+cpp"] = ["cpp"] /\ eval_targets keys ["-cpp"] = ["cppcli"; "java"; "objc"; "yaml"] /\
  eval_targets keys ["+any"; "-java"] = ["cpp"; "cppcli"; "objc"; "yaml"] /\
  eval_targets keys ["+java"; "-java"; "+objc"] = ["objc"] /\ eval_targets keys [] = [] /\
  eval_targets keys ["+any"] = keys.
Proof. vm_compute. repeat split. Qed.
