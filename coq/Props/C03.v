(* C03 - The AST delivered by parsing is a faithful image of the source text.
   Model: Idl/Visitor.v (the ANTLR visitor on the dumped parse tree).  The tree->AST function is tied to the real
   visitor by K-front on the real parse trees of generated programs under many layouts; theorems below cover the parts
   that are quantified over unbounded objects: target-flag sequences of any length, namespace nesting of any depth. *)
From Coq Require Import List String Bool Arith.
From Coq Require Import Ascii.
From PDV Require Import Lib.StrUtil Lang.Comment Idl.Cst Idl.Ast Idl.Resolver Idl.Visitor Idl.TargetsProofs Idl.VisitorProofs Idl.CommentCmd.
Import ListNotations.
Open Scope string_scope. Open Scope list_scope.

(* the target set computed from a +/- flag sequence of ANY length is the documented denotation *)
Theorem C03_targets_denotation : forall keys flags t,
  In t (eval_targets keys flags) <-> denotes keys flags t.
Proof. exact eval_targets_denotation. Qed.
Print Assumptions C03_targets_denotation.

Theorem C03_targets_plus_only_in_order : forall keys flags,
  minus_names flags = [] -> has_any flags = false -> eval_targets keys flags = plus_names flags.
Proof. exact eval_targets_plus_only. Qed.
Print Assumptions C03_targets_plus_only_in_order.

Theorem C03_targets_sound : forall keys flags t,
  In t (eval_targets keys flags) -> In t keys \/ In t (plus_names flags).
Proof. exact eval_targets_sound. Qed.
Print Assumptions C03_targets_sound.

(* evaluating the flags of one declaration is a function of (supported targets, flags) only: the supported list is
   part of the immutable environment of the visitor (no state is written by visit_targets except diagnostics) *)
Theorem C03_targets_pure : forall e c, pres (visit_targets e c).
Proof. exact pres_visit_targets. Qed.
Print Assumptions C03_targets_pure.

(* namespaces: whatever is visited - any tree, conformant or not, any nesting depth - the current namespace and the
   size stack are restored afterwards ... *)
Theorem C03_namespace_restored : forall e fuel c, pres (visit_ns_content e fuel c) /\ pres (visit_namespace e fuel c).
Proof. intros e fuel c. split; [apply ns_content_restores | apply namespace_restores]. Qed.
Print Assumptions C03_namespace_restored.

(* ... and the members of a block `namespace a.b { ... }` are visited under (enclosing path) ++ [a; b] *)
Theorem C03_namespace_path : forall e vc c s a s',
  namespace_body e vc c s = Ok (a, s') ->
  exists name p children s3 s5,
    a = NNamespace name p (comment_of c) (somes children) /\
    s_ns s3 = s_ns s ++ split_on dot name /\
    mmap vc (rules "namespaceContent" c) s3 = Ok (children, s5).
Proof. exact namespace_children_path. Qed.
Print Assumptions C03_namespace_path.

(* documentation commands (model Idl/CommentCmd.v, tied to markdown_plugins.py + comment_processor.py by K-commands):
   the two documented spellings  @deprecated / \deprecated  (and @param / \param) denote the same thing, for any comment *)
Theorem C03_command_spelling : forall name line, cmd_text name (swap_spelling line) = cmd_text name line.
Proof. exact cmd_text_swap. Qed.
Print Assumptions C03_command_spelling.

Theorem C03_deprecated_spelling_free : forall lines, Forall (fun l => has_char nl l = false) lines -> lines <> [] ->
  deprecated_of (join (String nl "") (map swap_spelling lines)) = deprecated_of (join (String nl "") lines).
Proof. exact deprecated_spelling_free. Qed.
Print Assumptions C03_deprecated_spelling_free.

(* a comment without a deprecated command line leaves the declaration alone; otherwise the last such line decides *)
Theorem C03_no_command_no_deprecation : forall comment,
  Forall (fun l => cmd_text "deprecated" l = None) (split_on nl comment) -> deprecated_of comment = DNo.
Proof. exact no_command_no_deprecation. Qed.
Print Assumptions C03_no_command_no_deprecation.

Theorem C03_last_deprecated_wins : forall before after line t,
  cmd_text "deprecated" line = Some t -> Forall (fun l => cmd_text "deprecated" l = None) after ->
  forall acc, fold_left (fun acc line => match cmd_text "deprecated" line with Some t => dep_of_text t | None => acc end) (before ++ line :: after) acc
              = dep_of_text t.
Proof. exact last_deprecated_wins. Qed.
Print Assumptions C03_last_deprecated_wins.

Example C03_targets_examples :
  let keys := ["cpp"; "cppcli"; "java"; "objc"; "yaml"] in
  eval_targets keys ["+cpp"] = ["cpp"] /\ eval_targets keys ["-cpp"] = ["cppcli"; "java"; "objc"; "yaml"] /\
  eval_targets keys ["+any"; "-java"] = ["cpp"; "cppcli"; "objc"; "yaml"] /\
  eval_targets keys ["+java"; "-java"; "+objc"] = ["objc"] /\ eval_targets keys [] = [] /\
  eval_targets keys ["+any"] = keys.
Proof. vm_compute. repeat split. Qed.
