(* C01 - Accepted IDL yields glue code that compiles, or a documented diagnostic.
   What a theorem can carry here is the template side: over the 69 templates translated from /repo on this run,
   (1) no literal text of a template contains a template marker (so a marker in the output can only come from data),
   (2) every attribute a template reads from a marshalling object  X.<generator>.<attr>  exists on some marshalling class of
       that generator (Gen/MarshalAttrs.v, reflected from the classes) - an attribute that exists on none is a silently
       empty undefined value for every input.  Whether the rendered text is well-formed C++/Java is decided by compilers
       (J-compile), not here. *)
From Coq Require Import List String Ascii Bool.
From PDV Require Import Lib.StrUtil Jinja.Tir Jinja.Static Gen.Templates Gen.MarshalAttrs Marshal.Yaml Marshal.YamlProofs.
Import ListNotations.
Open Scope string_scope. Open Scope list_scope.

Definition markers : list string := ["//>"; "//?"; "/*>"; "{%"; "%}"; "{{ "; "/*#"; "#*/"].
Definition has_marker (s : string) : bool := existsb (fun m => contains m s) markers.

Theorem C01_no_marker_in_template_text :
  forallb (fun t : string * string * list stmt => forallb (fun s => negb (has_marker s)) (tmpl_strings (snd t))) all_templates = true.
Proof. vm_compute. reflexivity. Qed.
Print Assumptions C01_no_marker_in_template_text.

(* attribute reads  X.<gen>.<attr>  for the six generator keys *)
Fixpoint expr_gen_reads (e : expr) {struct e} : list (string * string) :=
  let go := (fix go (l : list expr) : list (string * string) := match l with [] => [] | x :: r => expr_gen_reads x ++ go r end) in
  let gokw := (fix gokw (l : list (string * expr)) : list (string * string) := match l with [] => [] | (_, x) :: r => expr_gen_reads x ++ gokw r end) in
  match e with
  | EAttr (EAttr x g) a => (if mem g gens then [(g, a)] else []) ++ expr_gen_reads x
  | EAttr x _ => expr_gen_reads x
  | EItem a b => expr_gen_reads a ++ expr_gen_reads b
  | EConcat l | EListLit l => go l
  | ECond c t f => expr_gen_reads c ++ expr_gen_reads t ++ match f with Some x => expr_gen_reads x | None => [] end
  | ENot x => expr_gen_reads x
  | EAnd a b | EOr a b | ECmp _ a b | EBin _ a b => expr_gen_reads a ++ expr_gen_reads b
  | EFilter _ x args kw => expr_gen_reads x ++ go args ++ gokw kw
  | ETest _ x args => expr_gen_reads x ++ go args
  | ECall f args kw => expr_gen_reads f ++ go args ++ gokw kw
  | _ => []
  end.
Fixpoint stmt_gen_reads (s : stmt) {struct s} : list (string * string) :=
  let go := (fix go (l : list stmt) : list (string * string) := match l with [] => [] | x :: r => stmt_gen_reads x ++ go r end) in
  match s with
  | SOut l => flat_map expr_gen_reads l
  | SIf c t elifs f => expr_gen_reads c ++ go t ++
                       (fix ge (l : list (expr * list stmt)) : list (string * string) := match l with [] => [] | (c', b) :: r => expr_gen_reads c' ++ go b ++ ge r end) elifs ++ go f
  | SFor _ it test body => expr_gen_reads it ++ match test with Some t => expr_gen_reads t | None => [] end ++ go body
  | SSet _ e | SSetNs _ _ e => expr_gen_reads e
  | SCallBlock c body => expr_gen_reads c ++ go body
  | SBlock _ body | SMacro _ _ _ body => go body
  | _ => []
  end.
Definition all_gen_reads : list (string * string) :=
  dedup (flat_map (fun t : string * string * list stmt => flat_map stmt_gen_reads (snd t)) all_templates).
Definition attr_exists (g a : string) : bool :=
  match find (fun p => String.eqb (fst p) g) marshal_attrs with Some (_, l) => mem a l | None => false end.

(* every such read names an attribute of some marshalling class of that generator - with exactly one exception:
   type_def.cpp.coroutine_entrypoint in cppcli/source/interface.jinja2.cpp, which sits in the else-branch of
   `if method.asynchronous` guarded by `... if method.asynchronous` again: dead code, never evaluated (Jinja's conditional
   expression is lazy), so it cannot reach the output.  Any NEW unresolvable read changes this list and breaks the theorem. *)
Theorem C01_template_attributes_exist :
  filter (fun p => negb (attr_exists (fst p) (snd p))) all_gen_reads = [("cpp", "coroutine_entrypoint")].
Proof. vm_compute. reflexivity. Qed.
Print Assumptions C01_template_attributes_exist.

Example C01_not_vacuous : List.length all_gen_reads >= 60 /\ attr_exists "cpp" "no_such_attribute" = false /\ has_marker "x //> y" = true.
Proof. vm_compute. repeat split; repeat constructor. Qed.
