(* C04 - Type references resolve by lexical namespace scoping, uniquely.
   Property theorems only; each closed by `exact` of a lemma proved in Idl/ResolverProofs.v. *)
From Coq Require Import List String Permutation.
From PDV Require Import Lib.StrUtil Idl.Resolver Idl.ResolverProofs.
Import ListNotations.
Open Scope string_scope. Open Scope list_scope.

(* relative reference: bound to the binding of the LONGEST registered prefix of its namespace *)
Theorem C04_resolve_innermost : forall (A : Type) (r : registry A) ns name v,
  starts_with "." name = false ->
  resolve r ns name = Some v ->
  exists p q, ns = p ++ q /\ get (qkey p name) r = Some v /\
    forall p' q', ns = p' ++ q' -> List.length p < List.length p' -> get (qkey p' name) r = None.
Proof. exact resolve_innermost. Qed.
Print Assumptions C04_resolve_innermost.

Theorem C04_resolve_innermost_complete : forall (A : Type) (r : registry A) ns name p q v,
  starts_with "." name = false ->
  ns = p ++ q -> get (qkey p name) r = Some v ->
  (forall p' q', ns = p' ++ q' -> List.length p < List.length p' -> get (qkey p' name) r = None) ->
  resolve r ns name = Some v.
Proof. exact resolve_innermost_complete. Qed.
Print Assumptions C04_resolve_innermost_complete.

(* unknown-type diagnostic exactly when no enclosing namespace (nor the root) has the name *)
Theorem C04_unknown : forall (A : Type) (r : registry A) ns name,
  starts_with "." name = false ->
  resolve r ns name = None ->
  forall p q, ns = p ++ q -> get (qkey p name) r = None.
Proof. exact resolve_unknown. Qed.
Print Assumptions C04_unknown.

(* a leading dot searches the root only *)
Theorem C04_absolute : forall (A : Type) (r : registry A) ns ns' name,
  starts_with "." name = true ->
  resolve r ns name = get (drop1 name) r /\ resolve r ns name = resolve r ns' name.
Proof. exact resolve_absolute. Qed.
Print Assumptions C04_absolute.

(* the string registry is the namespace tree: the dotted key determines (namespace, name) *)
Theorem C04_key_injective : forall ns name ns' name',
  Forall dotfree ns -> dotfree name -> Forall dotfree ns' -> dotfree name' ->
  qkey ns name = qkey ns' name' -> ns = ns' /\ name = name'.
Proof. exact qkey_injective. Qed.
Print Assumptions C04_key_injective.

(* declaration order is irrelevant to every binding *)
Theorem C04_order_free : forall (A : Type) (r : registry A) ds ds' r1,
  NoDup (map fst r) -> Permutation ds ds' ->
  register_all r ds = Some r1 ->
  exists r2, register_all r ds' = Some r2 /\
    (forall k, get k r1 = get k r2) /\
    (forall ns name, resolve r1 ns name = resolve r2 ns name).
Proof. exact register_all_order_free. Qed.
Print Assumptions C04_order_free.

(* duplicates (against declarations, built-ins or externs already in r) are rejected, only they *)
Theorem C04_duplicate : forall (A : Type) (r : registry A) ns name v,
  register r ns name v = None <-> In (qkey ns name) (map fst r).
Proof. exact register_rejects_iff_bound. Qed.
Print Assumptions C04_duplicate.

Theorem C04_duplicate_all : forall (A : Type) (ds : list (list string * string * A)) (r : registry A),
  NoDup (map fst r) ->
  ((exists r', register_all r ds = Some r') <-> NoDup (map fst r ++ map (dkey A) ds)).
Proof. exact register_all_accepts_iff_nodup. Qed.
Print Assumptions C04_duplicate_all.

(* declarations contributed by an imported file land in the same registry *)
Theorem C04_import_transparent : forall (A : Type) (ds1 ds2 : list (list string * string * A)) (r : registry A),
  register_all r (ds1 ++ ds2) =
  match register_all r ds1 with Some r1 => register_all r1 ds2 | None => None end.
Proof. exact register_all_app. Qed.
Print Assumptions C04_import_transparent.

(* non-vacuity: a concrete registry where an inner declaration shadows an outer one *)
Example C04_shadowing :
  let r := [("T", 1); ("a.T", 2); ("a.b.U", 3)] in
  resolve r ["a"; "b"] "T" = Some 2 /\ resolve r ["a"; "b"] ".T" = Some 1 /\
  resolve r ["a"; "b"] "U" = Some 3 /\ resolve r ["a"] "U" = None /\
  resolve r ["a"] "b.U" = Some 3 /\ resolve r [] "T" = Some 1.
Proof. vm_compute. repeat split. Qed.
