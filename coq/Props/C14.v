(* C14 - Files land where configured and the processed-files report is exact. *)
From Coq Require Import List String Bool Arith.
From PDV Require Import Lib.StrUtil Idl.Front Sys.Writer Sys.WriterProofs Marshal.Files Marshal.FilesProofs.
Import ListNotations.
Open Scope string_scope. Open Scope list_scope.

(* for EVERY sequence of FileReaderWriter operations on a fresh writer: the report lists exactly the files written per
   generator in order; a generator section exists iff that generator wrote something; the parsed lists are exactly the
   IDL / extern files read *)
Theorem C14_report_exact : forall keys ops k,
  In k keys ->
  let '(idl, ext, gen) := report (run ops (init keys)) in
  idl = idl_of ops /\ ext = ext_of ops /\
  (wrote k ops = true ->
     exists r, get_key k gen = Some r /\ k_headers r = headers_of k ops /\ k_sources r = sources_of k ops) /\
  (wrote k ops = false -> get_key k gen = None).
Proof. exact report_exact. Qed.
Print Assumptions C14_report_exact.

(* nothing is created or changed except through write_header / write_source / copy_* *)
Theorem C14_writes_confined : forall ops keys, map fst (w_log (run ops (init keys))) = written_paths ops.
Proof. exact writes_confined. Qed.
Print Assumptions C14_writes_confined.

(* output location = <configured directory> / <relative name>; an absolute right operand replaces the left one - which is
   why handing an already joined path to write_source again (the repaired JNI defect) only showed with relative 'out' *)
Theorem C14_join_relative : forall out rel, is_abs rel = false -> pjoin out rel = mk_path (is_abs out) (segs out ++ segs rel).
Proof. intros out rel H. unfold pjoin. now rewrite H. Qed.
Print Assumptions C14_join_relative.

Theorem C14_join_absolute_wins : forall out p, is_abs p = true -> pjoin out p = norm p.
Proof. intros out p H. unfold pjoin. now rewrite H. Qed.
Print Assumptions C14_join_absolute_wins.

Example C14_example :
  let ops := [ReadIdl "main.idl"; SetupInc "cpp" "out/cpp"; ReadIdl "lib.idl"; WriteHeader "cpp" "out/cpp/a.hpp" "1";
              WriteSource "cpp" "out/cpp/a.cpp" "2"; ReadExt "t.yaml"; WriteHeader "cpp" "out/cpp/b.hpp" "3"] in
  let '(idl, ext, gen) := report (run ops (init ["cpp"; "java"])) in
  idl = ["main.idl"; "lib.idl"] /\ ext = ["t.yaml"] /\ map fst gen = ["cpp"] /\
  option_map k_headers (get_key "cpp" gen) = Some ["out/cpp/a.hpp"; "out/cpp/b.hpp"] /\
  pjoin "out/jni" "loader.cpp" = "out/jni/loader.cpp" /\ pjoin "out/jni" (pjoin "out/jni" "loader.cpp") = "out/jni/out/jni/loader.cpp" /\
  pjoin "/abs/jni" (pjoin "/abs/jni" "loader.cpp") = "/abs/jni/loader.cpp".
Proof. vm_compute. repeat split. Qed.
