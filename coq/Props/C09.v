(* C09 - Derived record operations (eq, ord, hash, to-string) behave as specified.
   Structure: (1) render theorems - for EVERY record (any name, deriving set, field list) the eq / ord sections and the
   to-string loops of the real C++ and Java record templates (translated from /repo on this run) print exactly the
   && chain, the two-if cascade / compareTo cascade, the hashCode fold and one string item per field, in declaration
   order; (2) meaning of those shapes (Lang.RecordOps): equivalence, negation, lexicographic strict order consistent
   with ==, equals/hashCode/compareTo consistency - for any number of fields, given that the FIELD types' own
   operators are equivalences / strict orders (hypotheses, discharged for integers in the Example);
   (3) the per-field Java expressions (Lang.JavaField, tied to java/type.py by the K-jfield correspondence) are
   operands that cannot be torn apart by the surrounding && resp. * 31 +. *)
From Coq Require Import List String Ascii ZArith Bool Arith Lia.
From PDV Require Import Lib.StrUtil Jinja.Tir Jinja.Interp Gen.Templates Lang.RecordOps Lang.JavaField Lang.JavaFieldProofs
                        Jinja.FragFlags Jinja.FragEnums Jinja.FragRecord.
Import ListNotations.
Open Scope string_scope. Open Scope list_scope.

(* ---------- (1) what the templates print ---------- *)
Theorem C09_cpp_eq_section : forall r,
  exec cpp_cfg cpp_eq_section (recstate r) = (recstate r, if derives "eq" r then cpp_eq_text r else "").
Proof. exact cpp_eq_section_renders. Qed.
Print Assumptions C09_cpp_eq_section.

Theorem C09_cpp_ord_section : forall r,
  exec cpp_cfg cpp_ord_section (recstate r) = (recstate r, if derives "ord" r then cpp_ord_text r else "").
Proof. exact cpp_ord_section_renders. Qed.
Print Assumptions C09_cpp_ord_section.

Theorem C09_java_eq_section : forall r,
  exec java_cfg java_eq_section (recstate r) = (recstate r, if derives "eq" r then java_eq_text r else "").
Proof. exact java_eq_section_renders. Qed.
Print Assumptions C09_java_eq_section.

Theorem C09_java_ord_section : forall r,
  exec java_cfg java_ord_section (recstate r) = (recstate r, if derives "ord" r then java_ord_text r else "").
Proof. exact java_ord_section_renders. Qed.
Print Assumptions C09_java_ord_section.

(* the sections are the ones found in the templates of this run *)
Theorem C09_sections_are_the_templates :
  Slice.find_if_tag "eq" t_cpp_source_record_jinja2_cpp = Some cpp_eq_section /\
  Slice.find_if_tag "ord" t_cpp_source_record_jinja2_cpp = Some cpp_ord_section /\
  Slice.find_if_tag "eq" t_java_record_jinja2_java = Some java_eq_section /\
  Slice.find_if_tag "ord" t_java_record_jinja2_java = Some java_ord_section.
Proof. repeat split; vm_compute; reflexivity. Qed.
Print Assumptions C09_sections_are_the_templates.

(* every field is compared, in declaration order: the i-th line of the chain / cascade is about the i-th field *)
Theorem C09_eq_chain_lines : forall f l idx,
  eq_lines (f :: l) idx = (eq_line f (Nat.eqb idx 0) (match l with [] => true | _ => false end) ++ eq_lines l (S idx))%string.
Proof. reflexivity. Qed.
Print Assumptions C09_eq_chain_lines.

Theorem C09_to_string_cpp : forall r f, In f (r_fields r) ->
  (exists pre post, snd (exec cpp_cfg cpp_fmt_loop (recstate r)) = (pre ++ fd_cpp f ++ "={}" ++ post)%string) /\
  (exists pre post, snd (exec cpp_cfg cpp_arg_loop (recstate r)) = (pre ++ "::pydjinni::format(value." ++ fd_cpp f ++ ")" ++ post)%string).
Proof. exact cpp_to_string_mentions_every_field. Qed.
Print Assumptions C09_to_string_cpp.

Theorem C09_to_string_java : forall r f, In f (r_fields r) ->
  exists pre post, snd (exec java_cfg java_str_loop (recstate r)) = (pre ++ fd_java f ++ "="" + " ++ fd_java f ++ " +" ++ post)%string.
Proof. exact java_to_string_mentions_every_field. Qed.
Print Assumptions C09_to_string_java.

(* ---------- (2) what the printed shapes mean ---------- *)
Section Meaning.
  Variable V : Type.
  Variable dflt : V.
  Variable eqf ltf : nat -> V -> V -> bool.
  Variable hcf : nat -> V -> Z.
  Hypothesis eq_refl_f : forall i x, eqf i x x = true.
  Hypothesis eq_sym_f : forall i x y, eqf i x y = eqf i y x.
  Hypothesis eq_trans_f : forall i x y z, eqf i x y = true -> eqf i y z = true -> eqf i x z = true.
  Hypothesis lt_irrefl_f : forall i x, ltf i x x = false.
  Hypothesis lt_trans_f : forall i x y z, ltf i x y = true -> ltf i y z = true -> ltf i x z = true.
  Hypothesis tricho_f : forall i x y, (ltf i x y = false /\ ltf i y x = false) <-> eqf i x y = true.
  Hypothesis hash_compat_f : forall i x y, eqf i x y = true -> hcf i x = hcf i y.

  Theorem C09_eq_iff_all_fields : forall fs a b,
    eq_chain V dflt eqf fs a b = true <-> forall i, In i fs -> eqf i (get V dflt i a) (get V dflt i b) = true.
  Proof. exact (eq_chain_iff V dflt eqf). Qed.

  Theorem C09_eq_equivalence : forall fs,
    (forall a, eq_chain V dflt eqf fs a a = true) /\
    (forall a b, eq_chain V dflt eqf fs a b = eq_chain V dflt eqf fs b a) /\
    (forall a b c, eq_chain V dflt eqf fs a b = true -> eq_chain V dflt eqf fs b c = true -> eq_chain V dflt eqf fs a c = true).
  Proof.
    intros fs. split; [|split].
    - intros a. now apply eq_chain_refl.
    - intros a b. now apply eq_chain_sym.
    - intros a b c. now apply eq_chain_trans.
  Qed.

  Theorem C09_neq_is_negation : forall fs a b, neq V dflt eqf fs a b = negb (eq_chain V dflt eqf fs a b).
  Proof. reflexivity. Qed.

  Theorem C09_lt_is_lexicographic : forall fs a b,
    lt_cascade V dflt ltf fs a b = true <->
    exists pre i post, fs = pre ++ i :: post /\ (forall j, In j pre -> eqf j (get V dflt j a) (get V dflt j b) = true) /\
                       ltf i (get V dflt i a) (get V dflt i b) = true.
  Proof. intros. now apply lt_cascade_lex. Qed.

  Theorem C09_lt_strict_total_order : forall fs,
    (forall a, lt_cascade V dflt ltf fs a a = false) /\
    (forall a b c, lt_cascade V dflt ltf fs a b = true -> lt_cascade V dflt ltf fs b c = true -> lt_cascade V dflt ltf fs a c = true) /\
    (forall a b, lt_cascade V dflt ltf fs a b = true \/ lt_cascade V dflt ltf fs b a = true \/ eq_chain V dflt eqf fs a b = true) /\
    (forall a b, eq_chain V dflt eqf fs a b = true -> lt_cascade V dflt ltf fs a b = false).
  Proof.
    intros fs. split; [|split; [|split]].
    - intros a. now apply lt_cascade_irrefl.
    - intros a b c. eapply lt_cascade_trans; eassumption.
    - intros a b. eapply lt_cascade_total; eassumption.
    - intros a b. eapply eq_excludes_lt; eassumption.
  Qed.

  Theorem C09_other_order_ops : forall fs a b,
    gt V dflt ltf fs a b = lt_cascade V dflt ltf fs b a /\ le V dflt ltf fs a b = negb (lt_cascade V dflt ltf fs b a) /\
    ge V dflt ltf fs a b = negb (lt_cascade V dflt ltf fs a b).
  Proof. intros. apply derived_order_ops. Qed.

  Theorem C09_java_equals_hashcode : forall fs a b, eq_chain V dflt eqf fs a b = true -> hash V dflt hcf fs a = hash V dflt hcf fs b.
  Proof. intros fs a b. eapply equals_hash; eassumption. Qed.

  Theorem C09_java_compareTo_consistent : forall fs a b,
    (cmp_cascade V dflt ltf fs a b <? 0)%Z = lt_cascade V dflt ltf fs a b /\
    (cmp_cascade V dflt ltf fs a b = 0%Z <-> eq_chain V dflt eqf fs a b = true).
  Proof. intros fs a b. split; [apply cmp_negative_iff_lt | eapply cmp_zero_iff_equals; eassumption]. Qed.
End Meaning.
Print Assumptions C09_eq_iff_all_fields.
Print Assumptions C09_eq_equivalence.
Print Assumptions C09_lt_is_lexicographic.
Print Assumptions C09_lt_strict_total_order.
Print Assumptions C09_java_equals_hashcode.
Print Assumptions C09_java_compareTo_consistent.

(* the hypotheses are satisfiable: integer fields *)
Example C09_meaning_not_vacuous :
  let eqf := fun (_ : nat) => Z.eqb in let ltf := fun (_ : nat) => Z.ltb in
  (forall i x, eqf i x x = true) /\ (forall i x y, eqf i x y = eqf i y x) /\
  (forall i x y z, eqf i x y = true -> eqf i y z = true -> eqf i x z = true) /\
  (forall i x, ltf i x x = false) /\ (forall i x y z, ltf i x y = true -> ltf i y z = true -> ltf i x z = true) /\
  (forall i x y, (ltf i x y = false /\ ltf i y x = false) <-> eqf i x y = true) /\
  lt_cascade Z 0%Z ltf [0; 1; 2] [2; 1; 1]%Z [1; 1; 2]%Z = false /\ lt_cascade Z 0%Z ltf [0; 1; 2] [1; 1; 2]%Z [2; 1; 1]%Z = true.
Proof.
  cbv zeta.
  split; [intros; apply Z.eqb_refl|].
  split; [intros; apply Z.eqb_sym|].
  split; [intros i x y z H H0; apply Z.eqb_eq in H, H0; apply Z.eqb_eq; lia|].
  split; [intros; apply Z.ltb_irrefl|].
  split; [intros i x y z H H0; apply Z.ltb_lt in H, H0; apply Z.ltb_lt; lia|].
  split; [|split; reflexivity].
  intros i x y. split.
  - intros [H1 H2]. apply Z.ltb_ge in H1, H2. apply Z.eqb_eq. lia.
  - intros H. apply Z.eqb_eq in H. split; apply Z.ltb_ge; lia.
Qed.

(* ---------- (3) per-field Java expressions ---------- *)
Theorem C09_hash_term_is_one_operand : forall t n, is_ident n = true -> depth0_only postfix_char (jhash t n) = true.
Proof. exact jhash_atomic. Qed.
Print Assumptions C09_hash_term_is_one_operand.

Theorem C09_equals_term_is_one_operand : forall t n, is_ident n = true -> depth0_only eqop_char (jequals t n) = true.
Proof. exact jequals_and_safe. Qed.
Print Assumptions C09_equals_term_is_one_operand.

Theorem C09_references_compared_by_content : forall t n,
  ft_optional t = false -> ft_enum t = false -> is_boxed t = true ->
  jequals t n = (if String.eqb (ft_name t) "binary" then "java.util.Arrays.equals(" ++ n ++ ", other." ++ n ++ ")" else n ++ ".equals(other." ++ n ++ ")")%string.
Proof. exact jequals_refs_by_content. Qed.
Print Assumptions C09_references_compared_by_content.

Theorem C09_optionals_null_safe : forall t n, ft_optional t = true ->
  jequals t n = ("((this." ++ n ++ " == null && other." ++ n ++ " == null) || (this." ++ n ++ " != null && this." ++ n ++ ".equals(other." ++ n ++ ")))")%string
  /\ jhash t n = ("(" ++ n ++ " == null ? 0 : " ++ n ++ ".hashCode())")%string.
Proof. exact jequals_optional_null_safe. Qed.
Print Assumptions C09_optionals_null_safe.
