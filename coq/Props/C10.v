(* C10 - Output is a pure function of IDL and configuration (deterministic, history-free).
   (1) hash-seed freedom: every place where a set-typed attribute (Gen/SetAttrs.v: AST scan of /repo for `-> set[..]`)
       reaches one of the 69 translated templates is an order-insensitive use (| sort, | length, in / not in, truth
       value), and  | sort  is a function of the SET of items when no two items fold to the same key;
   (2) history / target-order freedom of the file tree in the writer model (Sys/Writer.v, tied to FileReaderWriter by
       the K-writer correspondence of C14): a path written by the final generation has the content that generation
       gives it; targets writing disjoint paths commute;
   (3) the refuted parts, with witnesses: stable sort on the case-folded key keeps the incoming order of items that
       differ only in case; the processed-files report accumulates over the life of the API object. *)
From Coq Require Import List String Ascii Bool Arith Permutation.
From PDV Require Import Lib.StrUtil Jinja.Tir Jinja.Interp Jinja.SortProofs Gen.Templates Gen.SetAttrs Sys.Writer Sys.WriterProofs Sys.WriterFsProofs.
Import ListNotations.
Open Scope string_scope. Open Scope list_scope.

Theorem C10_sets_reach_templates_order_free :
  forallb (fun t : string * string * list stmt => forallb stmt_order_free (snd t)) all_templates = true.
Proof. exact templates_use_sets_order_free. Qed.
Print Assumptions C10_sets_reach_templates_order_free.

Theorem C10_sort_is_a_function_of_the_set : forall l l', distinct_keys false l -> Permutation l l' -> sort_filter l = sort_filter l'.
Proof. exact sort_filter_perm. Qed.
Print Assumptions C10_sort_is_a_function_of_the_set.

(* with case_sensitive=True (all set loops of this run, next theorem) the elements of a set are enough: no side condition *)
Theorem C10_sort_of_a_set : forall l l', NoDup l -> Permutation l l' -> sort_filter_by true (map VStr l) = sort_filter_by true (map VStr l').
Proof. exact sort_cs_set. Qed.
Print Assumptions C10_sort_of_a_set.

Theorem C10_set_loops_sorted_case_sensitively :
  forallb (fun t : string * string * list stmt => forallb (fun it => negb (mentions_set it) || sorted_cs it) (flat_map for_iters (snd t))) all_templates = true.
Proof. exact set_loops_sorted_case_sensitively. Qed.
Print Assumptions C10_set_loops_sorted_case_sensitively.

Theorem C10_sorted_loop_items_cs : forall g st e,
  eval g st (EFilter "sort" e [] [("case_sensitive", EBool true)]) = VList (sort_filter_by true (as_list (eval g st e))).
Proof. exact eval_sort_cs. Qed.
Print Assumptions C10_sorted_loop_items_cs.

Theorem C10_sorted_loop_items : forall g st e, eval g st (EFilter "sort" e [] []) = VList (sort_filter (as_list (eval g st e))).
Proof. exact eval_sort. Qed.
Print Assumptions C10_sorted_loop_items.

Theorem C10_history_free : forall p g h h' s s' c, last_write p g = Some c ->
  fs_get p (w_files (run (h ++ g) s)) = Some c /\ fs_get p (w_files (run (h' ++ g) s')) = Some c.
Proof. exact files_history_free. Qed.
Print Assumptions C10_history_free.

Theorem C10_target_order_free : forall a b s,
  (forall p, writes_path p a = true -> writes_path p b = false) ->
  forall p, fs_get p (w_files (run (a ++ b) s)) = fs_get p (w_files (run (b ++ a) s)).
Proof. exact files_target_order_free. Qed.
Print Assumptions C10_target_order_free.

(* refuted parts (the first one is why the include loops were changed to case_sensitive=True: fix 6729cee) *)
Theorem C10_sort_case_collision_refuted :
  sort_filter [VStr """Foo.hpp"""; VStr """foo.hpp"""] <> sort_filter [VStr """foo.hpp"""; VStr """Foo.hpp"""].
Proof. exact sort_depends_on_order_when_keys_collide. Qed.
Print Assumptions C10_sort_case_collision_refuted.

Theorem C10_report_history_refuted : exists keys ops, report (run (ops ++ ops) (init keys)) <> report (run ops (init keys)).
Proof. exact report_history_dependent. Qed.
Print Assumptions C10_report_history_refuted.

Example C10_not_vacuous :
  List.length (filter (fun t : string * string * list stmt => existsb has_set_loop (snd t)) all_templates) >= 5 /\
  stmt_order_free (SFor "i" (EAttr (EAttr (EVar "type_def") "cpp") "header_includes") None []) = false /\
  distinct_keys false [VStr "<b>"; VStr """a.hpp"""; VStr "<A2>"] /\
  sort_filter [VStr "<b>"; VStr """a.hpp"""; VStr "<A2>"] = sort_filter [VStr "<A2>"; VStr "<b>"; VStr """a.hpp"""].
Proof.
  split; [apply set_loops_exist|]. split; [apply set_loops_exist|]. split.
  - unfold distinct_keys. vm_compute. repeat constructor; cbn; intuition discriminate.
  - vm_compute. reflexivity.
Qed.
