(* C20 - A failing external build/publish tool is reported and leaves no trace of success. *)
From Coq Require Import List String Bool Arith.
From PDV Require Import Sys.Exec Sys.ExecProofs.
Import ListNotations.
Open Scope string_scope. Open Scope list_scope.

(* every pipeline (any number of platforms/architectures => any number of invocation points), every outcome
   sequence of the tools: the process working directory afterwards is the one before *)
Theorem C20_cwd_restored : forall steps w, cwd (fst (run steps w)) = cwd w.
Proof. exact run_cwd. Qed.
Print Assumptions C20_cwd_restored.

(* the i-th invocation missing or non-zero, wherever it is: the operation stops there with code 130 *)
Theorem C20_fails_with_130 : forall pre cmd wd post w w1,
  run pre w = (w1, Done) -> next_outcome w1 <> Zero ->
  run (pre ++ Exec cmd wd :: post) w = (fst (execute cmd wd w1), Err130).
Proof. exact run_fails_at. Qed.
Print Assumptions C20_fails_with_130.

Theorem C20_tool_fails_with_130 : forall pre cmd wd post w w1,
  run pre w = (w1, Done) -> next_outcome w1 <> Zero ->
  run (pre ++ ToolEmit cmd wd :: post) w = (fst (execute cmd wd w1), Err130).
Proof. exact run_tool_fails_at. Qed.
Print Assumptions C20_tool_fails_with_130.

Theorem C20_failure_prefix_closed : forall s1 s2 w,
  run (s1 ++ s2) w = match run s1 w with (w1, Done) => run s2 w1 | (w1, Err130) => (w1, Err130) end.
Proof. exact run_app. Qed.
Print Assumptions C20_failure_prefix_closed.

(* no finished artifact after a failure, for every step list that resets the output directory first and emits
   only when no command can fail afterwards ... *)
Theorem C20_no_artifact : forall l w w1,
  safe l = true -> run (ResetOut :: l) w = (w1, Err130) -> artifacts w1 = 0.
Proof. exact reset_safe_no_artifact. Qed.
Print Assumptions C20_no_artifact.

(* ... which the package step list of each of the three plugins is (finite: aar, nuget, swiftpackage) *)
Theorem C20_package_no_artifact : forall t w w1,
  run (package_steps t) w = (w1, Err130) -> artifacts w1 = 0.
Proof. exact package_fail_no_artifact. Qed.
Print Assumptions C20_package_no_artifact.

(* non-vacuity: a stale artifact + failing gradle wrapper on the second of three architectures' worth of steps *)
Example C20_example :
  let w := {| cwd := "/proj"; artifacts := 0; calls := []; plan := [Zero; Zero; NonZero] |} in
  let steps := build_steps Aar 2 ++ [Seed] ++ package_steps Aar ++ publish_steps Aar false false in
  snd (run steps w) = Err130 /\ artifacts (fst (run steps w)) = 0 /\ cwd (fst (run steps w)) = "/proj" /\
  List.length (calls (fst (run steps w))) = 3.
Proof. vm_compute. repeat split. Qed.
