(* C16 - Imports: each file is loaded once, cycles are diagnosed, search order is fixed. *)
From Coq Require Import List String Bool Arith.
From PDV Require Import Lib.StrUtil Idl.Cst Idl.Ast Idl.Resolver Idl.Visitor Idl.Front Idl.Init Idl.ImportProofs.
Import ListNotations.
Open Scope string_scope. Open Scope list_scope.

(* search order, for every file system, importer, include-directory list and spelling *)
Theorem C16_search_order : forall w e path sp,
  search w e path = Found sp ->
  exists pre post, candidates e path = pre ++ sp :: post /\ exists_file w sp = true /\
                   (forall c, In c pre -> exists_file w c = false) /\ sp <> norm (e_idl e).
Proof. exact search_order. Qed.
Print Assumptions C16_search_order.

Theorem C16_candidates : forall e path,
  candidates e path = norm path :: pjoin (parent (e_idl e)) path :: map (fun d => pjoin d path) (e_incdirs e).
Proof. exact candidates_shape. Qed.
Print Assumptions C16_candidates.

Theorem C16_missing : forall w e path,
  search w e path = NotFound <-> forall c, In c (candidates e path) -> exists_file w c = false.
Proof. exact search_missing. Qed.
Print Assumptions C16_missing.

Theorem C16_self_import : forall w e path,
  search w e path = FoundSelf ->
  exists pre post, candidates e path = pre ++ norm (e_idl e) :: post /\ (forall c, In c pre -> exists_file w c = false).
Proof. exact search_self. Qed.
Print Assumptions C16_self_import.

(* no hang: recursion depth bounded by the fuel; exhaustion is the circular-import diagnostic *)
Theorem C16_no_hang : forall w keys der inc idl ip s,
  exists p, parse w keys der inc 0 idl ip s = Ok p /\ pr_ok p = false /\
            map d_tag (s_errors (pr_state p)) = ["circular-indirect"].
Proof. exact fuel_exhaustion_is_diagnostic. Qed.
Print Assumptions C16_no_hang.

(* REFUTED on the current tree (recorded findings C16-K1, C16-K2), witnesses evaluated on the model *)
Theorem C16_once_refuted : ~ once_property diamond.
Proof. exact import_once_refuted. Qed.
Print Assumptions C16_once_refuted.

Theorem C16_cycle_with_declarations_refuted :
  outcome_of (run_front cycle_with_declarations [] [] "main.pydjinni") = ("app", 170, ["Resolver.TypeResolvingException"]).
Proof. exact import_cycle_with_declarations_refuted. Qed.
Print Assumptions C16_cycle_with_declarations_refuted.

(* what does hold on the model: import trees give the transitive closure; declaration-free cycles are diagnosed *)
Theorem C16_closure_partial :
  outcome_of (run_front (mkw [("main.pydjinni", t_file ["a.pydjinni"; "b.pydjinni"] ["m"]);
                              ("a.pydjinni", t_file ["sub/c.pydjinni"] ["a"]);
                              ("sub/c.pydjinni", t_file [] ["c"]);
                              ("b.pydjinni", t_file [] ["b"])]) [] [] "main.pydjinni") = ("ok", 4, []).
Proof. exact import_tree. Qed.

Theorem C16_cycle_partial :
  outcome_of (run_front (mkw [("main.pydjinni", t_file ["a.pydjinni"] []); ("a.pydjinni", t_file ["main.pydjinni"] [])]) [] [] "main.pydjinni")
  = ("list", 0, ["circular-indirect"]).
Proof. exact import_cycle_without_declarations. Qed.
