(* C02 - Generated C++/Java/ObjC/C# API declares exactly what the IDL declares; type mapping is compositional.
   (1) the four type-string functions (model of cpp/java/objc/cppcli type.py, tied by K-marshal) are the unique
       homomorphisms determined by their per-constructor clauses: agreement on the clauses settles every nesting depth;
   (2) optional / interface / parameter laws; (3) C++ method specifiers (finite); (4) identifier styles;
   (5) render theorems: the record declarations of the C++ and Java templates (translated from /repo on this run) list
       one member, one constructor parameter and one initialiser per field, in declaration order. *)
From Coq Require Import List String Ascii ZArith Bool Arith.
From PDV Require Import Lib.StrUtil Marshal.Ident Marshal.IdentProofs Marshal.TypeStr Marshal.TypeStrProofs
                        Jinja.Tir Jinja.Interp Gen.Templates Jinja.FragFlags Jinja.FragEnums Jinja.FragRecord Jinja.FragDecl Jinja.FragIface Jinja.Inline Jinja.FragIfaceJava Jinja.FragErr
                        Lang.Comment Jinja.FragFlagsObjc Jinja.FragFlagsCli Jinja.LoopPure Jinja.FragEnums2 Jinja.FragDeclObjc Jinja.FragIfaceObjc Jinja.FragErr2.
Import ListNotations.
Open Scope string_scope. Open Scope list_scope.

Theorem C02_cpp_type_compositional : forall nn u o ty args,
  cpp_inner nn u (TR o ty args) = cpp_wrap nn u o ty (map_tr (cpp_inner nn false) args).
Proof. exact cpp_compositional. Qed.
Print Assumptions C02_cpp_type_compositional.
Theorem C02_java_type_compositional : forall b o ty args, java_type b (TR o ty args) = java_wrap b o ty (map_tr (java_type true) args).
Proof. exact java_compositional. Qed.
Print Assumptions C02_java_type_compositional.
Theorem C02_objc_type_compositional : forall p b o ty args,
  objc_decl p b (TR o ty args) = objc_wrap p b o ty (map_tr (objc_decl false true) args).
Proof. exact objc_compositional. Qed.
Print Assumptions C02_objc_type_compositional.
Theorem C02_cppcli_type_compositional : forall o ty args, cli_type (TR o ty args) = cli_wrap o ty (map_tr cli_type args).
Proof. exact cli_compositional. Qed.
Print Assumptions C02_cppcli_type_compositional.

(* depth-free: anything that satisfies the clauses IS the function, at every nesting depth *)
Theorem C02_depth_free_cpp : forall nn (F : bool -> tr -> string),
  (forall u o ty args, F u (TR o ty args) = cpp_wrap nn u o ty (map_tr (F false) args)) -> forall r u, F u r = cpp_inner nn u r.
Proof. exact cpp_unique. Qed.
Print Assumptions C02_depth_free_cpp.
Theorem C02_depth_free_java : forall F : bool -> tr -> string,
  (forall b o ty args, F b (TR o ty args) = java_wrap b o ty (map_tr (F true) args)) -> forall r b, F b r = java_type b r.
Proof. exact java_unique. Qed.
Print Assumptions C02_depth_free_java.
Theorem C02_depth_free_objc : forall F : bool -> bool -> tr -> string,
  (forall p b o ty args, F p b (TR o ty args) = objc_wrap p b o ty (map_tr (F false true) args)) -> forall r p b, F p b r = objc_decl p b r.
Proof. exact objc_unique. Qed.
Print Assumptions C02_depth_free_objc.
Theorem C02_depth_free_cppcli : forall F : tr -> string,
  (forall o ty args, F (TR o ty args) = cli_wrap o ty (map_tr F args)) -> forall r, F r = cli_type r.
Proof. exact cli_unique. Qed.
Print Assumptions C02_depth_free_cppcli.

Theorem C02_cpp_optional : forall nn u ty args, is_interface ty = false -> is_function ty = false ->
  cpp_inner nn u (TR true ty args) = ("std::optional<" ++ cpp_inner nn u (TR false ty args) ++ ">")%string.
Proof. exact cpp_optional_wraps_once. Qed.
Print Assumptions C02_cpp_optional.
Theorem C02_java_optional_is_boxed : forall b ty args, java_type b (TR true ty args) = java_type true (TR false ty args).
Proof. exact java_optional_is_boxed. Qed.
Print Assumptions C02_java_optional_is_boxed.
Theorem C02_cppcli_reference_optional : forall ty args, cli_reference ty = true -> cli_type (TR true ty args) = cli_type (TR false ty args).
Proof. exact cli_reference_types_ignore_optional. Qed.
Print Assumptions C02_cppcli_reference_optional.

Theorem C02_cpp_specifiers : forall has_ret const noexcept static : bool,
  let pre := prefix_specifiers has_ret const static false in
  let post := postfix_specifiers const noexcept static false in
  contains "static " pre = static /\ contains "virtual " pre = negb static /\ contains " = 0" post = negb static /\
  contains " const" post = const /\ contains " noexcept" post = noexcept /\ contains "[[nodiscard]]" pre = (has_ret && const).
Proof. exact cpp_specifiers_iff. Qed.
Print Assumptions C02_cpp_specifiers.

Theorem C02_objc_throwing_block : forall ret params,
  exists pre, objc_block_typename ret params false = (pre ++ "NSError* _Nullable * _Nonnull)")%string.
Proof. exact objc_block_error_parameter. Qed.
Print Assumptions C02_objc_throwing_block.

(* identifier styles *)
Theorem C02_ident_styles : forall s,
  convert SSnake None s = lower s /\ convert STrain None s = upper s /\
  convert SPascal None s = join "" (map capitalize (split_on us s)) /\ has_char us (convert SPascal None s) = false /\
  (forall p, convert SNone p s = match p with Some q => (q ++ s)%string | None => s end).
Proof.
  intros s. split; [apply convert_snake|]. split; [apply convert_train|]. split; [apply convert_pascal|]. split; [apply convert_pascal_no_underscore|]. intros p; apply convert_none.
Qed.
Print Assumptions C02_ident_styles.

(* record declarations *)
Theorem C02_record_decl_cpp : forall fl,
  exec cpp_cfg cpp_members_loop (dstate fl) = (dstate fl, lines cpp_member fl 0) /\
  exec cpp_cfg cpp_ctor_loop (dstate fl) = (dstate fl, lines cpp_ctor_param fl 0) /\
  exec cpp_cfg cpp_init_loop (dstate fl) = (dstate fl, lines cpp_init fl 0).
Proof. intros fl. repeat split; [apply cpp_members_render | apply cpp_ctor_render | apply cpp_init_render]. Qed.
Print Assumptions C02_record_decl_cpp.

Theorem C02_record_decl_java : forall fl,
  exec java_cfg java_fields_loop (dstate fl) = (dstate fl, lines java_field fl 0) /\
  exec java_cfg java_ctor_loop (dstate fl) = (dstate fl, lines java_ctor_param fl 0) /\
  exec java_cfg java_assign_loop (dstate fl) = (dstate fl, lines java_assign fl 0).
Proof. intros fl. repeat split; [apply java_fields_render | apply java_ctor_render | apply java_assign_render]. Qed.
Print Assumptions C02_record_decl_java.

(* interface declarations: one C++ method declaration per IDL method, in order, with its parameter list, for every method list *)
Theorem C02_interface_decl_cpp : forall ml,
  exec cpp_cfg iface_loop (istate ml) = (istate ml, concat "" (map method_decl ml)).
Proof. exact iface_methods_render. Qed.
Print Assumptions C02_interface_decl_cpp.

Theorem C02_interface_loop_is_the_template : Slice.nth_for "methods" 0 t_cpp_header_interface_jinja2_hpp = Some iface_loop.
Proof. vm_compute. reflexivity. Qed.
Print Assumptions C02_interface_loop_is_the_template.

(* Java: one abstract-class method declaration per IDL method (macro `parameters` of the base template expanded), with static / abstract,
   return type, parameter list, throws clause and the CppProxy forwarder of static methods, for every method list *)
Theorem C02_interface_decl_java : forall ml,
  execs java_cfg jiface_loop_l (jistate ml) = (jistate ml, concat "" (map jmethod_decl ml)).
Proof. exact java_iface_methods_render. Qed.
Print Assumptions C02_interface_decl_java.

Theorem C02_java_interface_loop_is_the_template :
  match Slice.nth_for "methods" 0 t_java_interface_jinja2_java with
  | Some f => inline 4 (macros_of t_java_base_jinja2 ++ macros_of t_java_interface_jinja2_java) [f]
  | None => []
  end = jiface_loop_l.
Proof. vm_compute. reflexivity. Qed.
Print Assumptions C02_java_interface_loop_is_the_template.

(* error domains: exactly their codes, in declaration order *)
Theorem C02_error_codes_cpp : forall dom cl,
  exec cpp_cfg cpp_codes_loop (estate dom cl) = (estate dom cl, concat "" (map cpp_code_line cl)).
Proof. exact cpp_error_codes_render. Qed.
Print Assumptions C02_error_codes_cpp.

Theorem C02_error_codes_java : forall dom cl c idx last, exists st' tail,
  execs java_cfg java_codes_body (bind "loop" (loopv idx (Nat.eqb idx 0) last) (bind "error_code" (ecodev c) (estate dom cl)))
  = (st', (java_code_head dom c ++ tail)%string).
Proof. exact java_error_code_class_opens. Qed.
Print Assumptions C02_error_codes_java.

Theorem C02_members_in_declaration_order : forall h l idx k f, nth_error l k = Some f ->
  exists pre post, lines h l idx = (pre ++ h f (idx + k) (match skipn (S k) l with [] => true | _ => false end) ++ post)%string.
Proof. exact lines_nth. Qed.
Print Assumptions C02_members_in_declaration_order.

Theorem C02_loops_are_the_templates :
  Slice.nth_for "fields" 0 t_cpp_header_record_jinja2_hpp = Some cpp_members_loop /\
  Slice.nth_for "fields" 1 t_cpp_header_record_jinja2_hpp = Some cpp_ctor_loop /\
  Slice.nth_for "fields" 2 t_cpp_header_record_jinja2_hpp = Some cpp_init_loop /\
  Slice.nth_for "fields" 0 t_java_record_jinja2_java = Some java_fields_loop /\
  Slice.nth_for "fields" 1 t_java_record_jinja2_java = Some java_ctor_loop /\
  Slice.nth_for "fields" 2 t_java_record_jinja2_java = Some java_assign_loop.
Proof. repeat split; vm_compute; reflexivity. Qed.
Print Assumptions C02_loops_are_the_templates.

(* ---- Objective-C and C++/CLI (no compiler for either in the sandbox: the theorem over the translated template is the tie) ---- *)
(* ObjC record: both initialisers take one  [label]:(type)name  part per field in order; one read-only @property per field *)
Theorem C02_record_decl_objc : forall fl,
  exec objc_cfg objc_init_loop (ostate fl) = (ostate fl, plines objc_selector_part fl 0) /\
  exec objc_cfg objc_conv_loop (ostate fl) = (ostate fl, plines objc_selector_part fl 0) /\
  exec objc_cfg objc_prop_loop (ostate fl) = (ostate fl, plines objc_property fl 0).
Proof. intros fl. repeat split; [apply objc_init_render | apply objc_conv_render | apply objc_prop_render]. Qed.
Print Assumptions C02_record_decl_objc.

(* C++/CLI record: constructor parameters, get-only properties and private backing fields, one per field in order *)
Theorem C02_record_decl_cppcli : forall fl,
  exec cli_cfg cli_ctor_loop (cstate fl) = (cstate fl, plines cli_ctor_param fl 0) /\
  exec cli_cfg cli_prop_loop (cstate fl) = (cstate fl, plines cli_property fl 0) /\
  exec cli_cfg cli_backing_loop (cstate fl) = (cstate fl, plines cli_backing fl 0).
Proof. intros fl. repeat split; [apply cli_ctor_render | apply cli_prop_render | apply cli_backing_render]. Qed.
Print Assumptions C02_record_decl_cppcli.

(* ObjC protocol / C++/CLI abstract class: one method declaration per IDL method, in order, any parameter lists *)
Theorem C02_interface_decl_objc : forall ml,
  exec objc_cfg oiface_loop (oistate ml) = (oistate ml, concat "" (map omethod_decl ml)).
Proof. exact oiface_methods_render. Qed.
Print Assumptions C02_interface_decl_objc.

Theorem C02_interface_decl_cppcli : forall ml,
  exec cli_cfg kiface_loop (kistate ml) = (kistate ml, concat "" (map kmethod_decl ml)).
Proof. exact kiface_methods_render. Qed.
Print Assumptions C02_interface_decl_cppcli.

(* enums: exactly the items, in order (Java / ObjC / C++-CLI; the C++ loop is C08_cpp_enum_render) *)
Theorem C02_enum_items : forall tn il,
  exec java_cfg java_enum_loop (e2state "java" tn il) = (e2state "java" tn il, plines java_enum_line il 0) /\
  exec objc_cfg objc_enum_loop (e2state "objc" tn il) = (e2state "objc" tn il, plines (objc_enum_line tn) il 0) /\
  exec cli_cfg cli_enum_loop (e2state "cppcli" tn il) = (e2state "cppcli" tn il, plines cli_enum_line il 0).
Proof. intros tn il. repeat split; [apply java_enum_render | apply objc_enum_render | apply cli_enum_render]. Qed.
Print Assumptions C02_enum_items.

(* error domains in Objective-C (NS_ERROR_ENUM) and C++/CLI (nested exception classes): exactly the codes, in declaration order *)
Theorem C02_error_codes_objc_cppcli : forall tn cl,
  exec objc_cfg objc_codes_loop (ec2state tn cl) = (ec2state tn cl, plines (objc_code_line tn) cl 0) /\
  exec cli_cfg cli_codes_loop (ec2state tn cl) = (ec2state tn cl, plines cli_code_line cl 0).
Proof. intros tn cl. split; [apply objc_codes_render | apply cli_codes_render]. Qed.
Print Assumptions C02_error_codes_objc_cppcli.

Theorem C02_members_in_declaration_order_2 : forall (A : Type) (h : A -> nat -> bool -> string) l idx k a, nth_error l k = Some a ->
  exists pre post, plines h l idx = (pre ++ h a (idx + k) (match skipn (S k) l with [] => true | _ => false end) ++ post)%string.
Proof. exact @plines_nth. Qed.
Print Assumptions C02_members_in_declaration_order_2.

Theorem C02_objc_cppcli_loops_are_the_templates :
  (Slice.nth_for "fields" 0 t_objc_header_record_jinja2_h = Some objc_init_loop /\
   Slice.nth_for "fields" 1 t_objc_header_record_jinja2_h = Some objc_conv_loop /\
   Slice.nth_for "fields" 2 t_objc_header_record_jinja2_h = Some objc_prop_loop /\
   List.length (Slice.find_fors_in "fields" t_objc_header_record_jinja2_h) = 3 /\
   Slice.nth_for "fields" 0 t_cppcli_header_record_jinja2_hpp = Some cli_ctor_loop /\
   Slice.nth_for "fields" 1 t_cppcli_header_record_jinja2_hpp = Some cli_prop_loop /\
   Slice.nth_for "fields" 2 t_cppcli_header_record_jinja2_hpp = Some cli_backing_loop /\
   List.length (Slice.find_fors_in "fields" t_cppcli_header_record_jinja2_hpp) = 3) /\
  (Slice.nth_for "methods" 0 t_objc_header_interface_jinja2_h = Some oiface_loop /\
   List.length (Slice.find_fors_in "methods" t_objc_header_interface_jinja2_h) = 1 /\
   Slice.nth_for "methods" 0 t_cppcli_header_interface_jinja2_hpp = Some kiface_loop).
Proof. split; [exact objc_cli_loops_are_the_templates | exact objc_cli_iface_loops_are_the_templates]. Qed.
Print Assumptions C02_objc_cppcli_loops_are_the_templates.

(* non-vacuity: list<map<string, i32?>>? and an interface parameter *)
Example C02_example :
  let i32 := mktinfo KOther "int32_t" true "int" "Integer" "int32_t" "NSNumber" false "int" false in
  let str := mktinfo KOther "std::string" false "String" "String" "NSString" "NSString" true "System::String" true in
  let map_ := mktinfo KOther "std::unordered_map" false "java.util.HashMap" "java.util.HashMap" "NSDictionary" "NSDictionary" true "System::Collections::Generic::Dictionary" true in
  let lst := mktinfo KOther "std::vector" false "java.util.ArrayList" "java.util.ArrayList" "NSArray" "NSArray" true "System::Collections::Generic::List" true in
  let r := TR true lst [TR false map_ [TR false str []; TR true i32 []]] in
  cpp_inner None false r = "std::optional<std::vector<std::unordered_map<std::string, std::optional<int32_t>>>>" /\
  java_type false r = "java.util.ArrayList<java.util.HashMap<String, Integer>>" /\
  objc_decl false false r = "NSArray<NSDictionary<NSString *, NSNumber *> *> *" /\
  cli_type r = "System::Collections::Generic::List<System::Collections::Generic::Dictionary<System::String^, System::Nullable<int>>^>^".
Proof. vm_compute. repeat split; reflexivity. Qed.
