(* C11 - Source layout does not matter: whitespace, declaration order, file split.
   Whitespace/comment placement: the model starts from the parse tree (layout is gone after ANTLR) and K-front + the
   re-layout oracle of C03 cover it.  Proved here, for declaration lists of any length: rule diagnostics and reference
   bindings are invariant under permutation and under splitting into imported/importing parts.  Equality of the
   GENERATED FILES is decided on the implementation by the metamorphic correspondence of this property (permutations,
   partitions into import trees, all targets, banner line excluded). *)
From Coq Require Import List String Bool Arith Permutation.
From PDV Require Import Lib.StrUtil Idl.Cst Idl.Ast Idl.Resolver Idl.ResolverProofs Idl.Visitor Idl.Front Idl.ChecksProofs Idl.LayoutProofs.
Import ListNotations.
Open Scope string_scope. Open Scope list_scope.

Theorem C11_diagnostics_permutation : forall b ds ds',
  Permutation ds ds' -> Permutation (post_checks b ds) (post_checks b ds').
Proof. exact post_checks_permutation. Qed.
Print Assumptions C11_diagnostics_permutation.

Theorem C11_acceptance_permutation : forall b ds ds',
  Permutation ds ds' -> (post_checks b ds = [] <-> post_checks b ds' = []).
Proof. exact post_checks_permutation_accept. Qed.
Print Assumptions C11_acceptance_permutation.

Theorem C11_bindings_permutation : forall (r : registry tdef) ds ds' r1,
  NoDup (map fst r) -> Permutation ds ds' -> register_all r ds = Some r1 ->
  exists r2, register_all r ds' = Some r2 /\ forall ns name, resolve r1 ns name = resolve r2 ns name.
Proof. exact bindings_permutation. Qed.
Print Assumptions C11_bindings_permutation.

Theorem C11_file_split_diagnostics : forall b imported local,
  Permutation (post_checks b (imported ++ local)) (post_checks b local ++ post_checks b imported).
Proof. exact post_checks_split. Qed.
Print Assumptions C11_file_split_diagnostics.

Theorem C11_file_split_registry : forall (ds1 ds2 : list (list string * string * tdef)) (r : registry tdef),
  register_all r (ds1 ++ ds2) = match register_all r ds1 with Some r1 => register_all r1 ds2 | None => None end.
Proof. exact (register_all_app tdef). Qed.
Print Assumptions C11_file_split_registry.
