(* C11 - Source layout does not matter: whitespace, declaration order, file split.
   Whitespace / line breaks: the parser model (generic parser on the grammar translated from Idl.g4, tied to ANTLR by K-parse) looks at token
   types only - two texts whose token streams agree on (type, text) have the same parse tree up to positions (C11_reformatting); that white
   space produces no token is the `-> skip` of the grammar's WS rule (K-parse + the re-layout oracle of C03 check it on the real lexer).  Proved here too, for declaration lists of any length: rule diagnostics and reference
   bindings are invariant under permutation and under splitting into imported/importing parts.  Equality of the
   GENERATED FILES is decided on the implementation by the metamorphic correspondence of this property (permutations,
   partitions into import trees, all targets, banner line excluded). *)
From Coq Require Import List String Bool Arith Permutation.
From Coq Require Import Ascii Relations.
From PDV Require Import Lang.Comment Idl.GrammarDefs Idl.Lexer Idl.ParserG Idl.LayoutFree Idl.LexParseProofs Idl.LexLemmas Idl.LexStable Idl.LexWhite Idl.LexWhiteParse Gen.Grammar.
From PDV Require Import Lib.StrUtil Idl.Cst Idl.Ast Idl.Resolver Idl.ResolverProofs Idl.Visitor Idl.Front Idl.ChecksProofs Idl.LayoutProofs.
Import ListNotations.
Open Scope string_scope. Open Scope list_scope.

Theorem C11_diagnostics_permutation : forall b ds ds',
  Permutation ds ds' -> Permutation (post_checks b ds) (post_checks b ds').
Proof. exact post_checks_permutation. Qed.
Print Assumptions C11_diagnostics_permutation.

Theorem C11_acceptance_permutation : forall b ds ds',
  Permutation ds ds' -> (post_checks b ds = [] <-> post_checks b ds' = []).
Proof. exact post_checks_permutation_accept. Qed.
Print Assumptions C11_acceptance_permutation.

Theorem C11_bindings_permutation : forall (r : registry tdef) ds ds' r1,
  NoDup (map fst r) -> Permutation ds ds' -> register_all r ds = Some r1 ->
  exists r2, register_all r ds' = Some r2 /\ forall ns name, resolve r1 ns name = resolve r2 ns name.
Proof. exact bindings_permutation. Qed.
Print Assumptions C11_bindings_permutation.

Theorem C11_file_split_diagnostics : forall b imported local,
  Permutation (post_checks b (imported ++ local)) (post_checks b local ++ post_checks b imported).
Proof. exact post_checks_split. Qed.
Print Assumptions C11_file_split_diagnostics.

Theorem C11_file_split_registry : forall (ds1 ds2 : list (list string * string * tdef)) (r : registry tdef),
  register_all r (ds1 ++ ds2) = match register_all r ds1 with Some r1 => register_all r1 ds2 | None => None end.
Proof. exact (register_all_app tdef). Qed.
Print Assumptions C11_file_split_registry.

(* re-formatting: texts with the same tokens (types and texts) are parsed to the same tree up to the recorded positions, or both rejected -
   for every lexer table and every grammar *)
Theorem C11_reformatting : forall lrules prules start s1 s2 ls1 ls2,
  lex_all lrules s1 = Some ls1 -> lex_all lrules s2 = Some ls2 -> has_lex_error ls1 = false -> has_lex_error ls2 = false ->
  Forall2 same_tok (tokens_of ls1) (tokens_of ls2) ->
  erase_o (parse_text lrules prules start s1) = erase_o (parse_text lrules prules start s2).
Proof. exact parse_text_layout_free. Qed.
Print Assumptions C11_reformatting.

Theorem C11_every_parse_is_layout_free : forall rules toks1 toks2, Forall2 same_tok toks1 toks2 ->
  forall fuel g pos, Forall2 rel (ParserG.parse rules toks1 fuel g pos) (ParserG.parse rules toks2 fuel g pos).
Proof. exact parse_layout_free. Qed.
Print Assumptions C11_every_parse_is_layout_free.

(* line breaks isolate: for the token rules of Idl.g4 as translated on this run (table_ok is decided by computation), if the tokenisation of
   x ++ newline ++ b has a lexeme boundary at |x| and no lexical error before it, the tokenisation of x ++ newline ++ b' starts with the SAME lexemes
   (types, texts, lines, columns) for ANY b': re-indenting the following lines, inserting blank lines, changing anything after a line break
   cannot change the tokens in front of it ... *)
Theorem C11_line_break_isolates_what_precedes : forall la x b b' k k' line col rest,
  lex_from k lexer_rules (x ++ String nl b) line col = Some (la ++ rest) -> concat_lexemes la = x -> no_err la ->
  String.length (x ++ String nl b') <= k' ->
  exists rest', lex_from k' lexer_rules (x ++ String nl b') line col = Some (la ++ rest').
Proof. apply lex_prefix_stable. vm_compute. reflexivity. Qed.
Print Assumptions C11_line_break_isolates_what_precedes.

(* ... and the same for EVERY white-space character of the grammar (newline, blank, tab, carriage return): the side condition holds for each of
   them (a rule that accepts the character is either a run of such characters - WS - or a literal followed by such a run - COMMENT - and then a
   lexeme boundary in front of the character is impossible unless the run ended before; FILEPATH is the only non-greedy rule) *)
Theorem C11_white_space_isolates_what_precedes : forall w, In w [nl; " "%char; "009"%char; "013"%char] ->
  forall la x b b' k k' line col rest,
    lex_from k lexer_rules (x ++ String w b) line col = Some (la ++ rest) -> concat_lexemes la = x -> no_err la ->
    String.length (x ++ String w b') <= k' ->
    exists rest', lex_from k' lexer_rules (x ++ String w b') line col = Some (la ++ rest').
Proof.
  intros w Hw. apply lex_prefix_stable.
  destruct Hw as [<-|[<-|[<-|[<-|[]]]]]; vm_compute; reflexivity.
Qed.
Print Assumptions C11_white_space_isolates_what_precedes.

(* ... for every rule table that passes the computable check, and every boundary character *)
Theorem C11_boundary_character_isolates : forall c rules, table_ok c rules = true ->
  forall la x b b' k k' line col rest,
    lex_from k rules (x ++ String c b) line col = Some (la ++ rest) -> concat_lexemes la = x -> no_err la -> String.length (x ++ String c b') <= k' ->
    exists rest', lex_from k' rules (x ++ String c b') line col = Some (la ++ rest').
Proof. exact lex_prefix_stable. Qed.
Print Assumptions C11_boundary_character_isolates.

(* ... and what stands in front of a lexeme boundary reaches the lexemes after it only through the start position (line, column) *)
Theorem C11_lexing_continues_from_a_boundary : forall rules la x cy y k line col rest,
  lex_from k rules (x ++ String cy y) line col = Some (la ++ rest) -> concat_lexemes la = x ->
  let '(l2, c2) := advance x line col in lex_from (k - List.length la) rules (String cy y) l2 c2 = Some rest.
Proof. exact lex_suffix. Qed.
Print Assumptions C11_lexing_continues_from_a_boundary.

(* the facts about the pattern matcher behind it (every pattern): a match of length n depends on the first n characters only;
   a pattern that never accepts c has no match that crosses an occurrence of c *)
Theorem C11_match_depends_on_its_own_characters : forall p u v n, n <= String.length u -> (In n (mlens p (u ++ v)%string) <-> In n (mlens p u)).
Proof. exact mlens_prefix. Qed.
Print Assumptions C11_match_depends_on_its_own_characters.

Theorem C11_match_stops_at_excluded_character : forall c p u r n, avoids c p = true -> In n (mlens p (u ++ String c r)%string) -> n <= String.length u.
Proof. exact mlens_stops_at. Qed.
Print Assumptions C11_match_stops_at_excluded_character.

(* the statement for the user: between two lexemes, one white-space run may be replaced by any other white-space run that starts with the same
   character (newline for newline, blank for blank, ...): the lexemes in front are the same, the run is one skipped lexeme, and everything after it
   is tokenised to the same types and texts - only positions move.  (The first character matters because of line comments: a newline ends a
   comment, a blank continues it; the hypothesis "there is a lexeme boundary in front of the run" is what excludes the inside of a comment.)
   The white-space rule and its character set are read off the grammar translated on this run. *)
Definition ws_set : lpat := LSet false [(32, 32); (9, 9); (13, 13); (10, 10)].
Definition ws_pred : ascii -> bool := fun a => xorb false (in_ranges a [(32, 32); (9, 9); (13, 13); (10, 10)]).
Lemma ws_rule_in_grammar : In ("WS", (true, false, LPlus ws_set)) lexer_rules.
Proof. vm_compute. repeat first [left; reflexivity | right]. Qed.

Theorem C11_white_space_runs_are_interchangeable : forall c, In c [nl; " "%char; "009"%char; "013"%char] ->
  forall w1 w2 y la x k k' line col rest1,
  run_len ws_pred w1 = String.length w1 -> run_len ws_pred w2 = String.length w2 -> (match y with EmptyString => true | String a _ => negb (ws_pred a) end) = true ->
  lex_from k lexer_rules (x ++ String c (w1 ++ y)) line col = Some (la ++ rest1) -> concat_lexemes la = x -> no_err la ->
  String.length (x ++ String c (w2 ++ y)) <= k' ->
  exists rest2 e1 t1 e2 t2,
    lex_from k' lexer_rules (x ++ String c (w2 ++ y)) line col = Some (la ++ rest2) /\
    rest1 = e1 :: t1 /\ rest2 = e2 :: t2 /\ lexeme_text e1 = String c w1 /\ lexeme_text e2 = String c w2 /\ Forall2 same_lexeme t1 t2.
Proof.
  intros c Hc w1 w2 y la x k k' line col rest1 H1 H2 Hy.
  apply (white_space_run_replaceable lexer_rules "WS" true ws_set ws_pred c w1 w2 y la x k k' line col rest1); try assumption; try reflexivity;
    try exact ws_rule_in_grammar; destruct Hc as [<-|[<-|[<-|[<-|[]]]]]; vm_compute; reflexivity.
Qed.
Print Assumptions C11_white_space_runs_are_interchangeable.

(* the general form: any rule table, any boundary character that passes the two computable checks *)
Theorem C11_white_space_run_replaceable : forall rules nm0 sk0 q pr c w1 w2 y la x k k' line col rest1,
  table_ok c rules = true -> In (nm0, (sk0, false, LPlus q)) rules -> single_char q = Some pr -> others_silent rules nm0 c = true -> pr c = true ->
  run_len pr w1 = String.length w1 -> run_len pr w2 = String.length w2 -> (match y with EmptyString => true | String a _ => negb (pr a) end) = true ->
  lex_from k rules (x ++ String c (w1 ++ y)) line col = Some (la ++ rest1) -> concat_lexemes la = x -> no_err la ->
  String.length (x ++ String c (w2 ++ y)) <= k' ->
  exists rest2 e1 t1 e2 t2,
    lex_from k' rules (x ++ String c (w2 ++ y)) line col = Some (la ++ rest2) /\
    rest1 = e1 :: t1 /\ rest2 = e2 :: t2 /\ lexeme_text e1 = String c w1 /\ lexeme_text e2 = String c w2 /\ Forall2 same_lexeme t1 t2.
Proof. exact white_space_run_replaceable. Qed.
Print Assumptions C11_white_space_run_replaceable.

(* end to end, for the grammar translated on this run: replacing a white-space run between two lexemes by another white-space run that starts
   with the same character leaves the parse tree unchanged up to the recorded positions (or both texts are rejected) - the white-space theorem
   above composed with C11_reformatting.  The hypotheses are about the FIRST text only. *)
Theorem C11_white_space_does_not_change_the_tree : forall c, In c [nl; " "%char; "009"%char; "013"%char] ->
  forall w1 w2 y la x rest1,
  run_len ws_pred w1 = String.length w1 -> run_len ws_pred w2 = String.length w2 -> (match y with EmptyString => true | String a _ => negb (ws_pred a) end) = true ->
  lex_all lexer_rules (x ++ String c (w1 ++ y)) = Some (la ++ rest1) -> concat_lexemes la = x -> no_err la -> has_lex_error (la ++ rest1) = false ->
  erase_o (parse_text lexer_rules parser_rules start_rule (x ++ String c (w1 ++ y))) =
  erase_o (parse_text lexer_rules parser_rules start_rule (x ++ String c (w2 ++ y))).
Proof.
  intros c Hc w1 w2 y la x rest1 H1 H2 Hy HL Hla Hne Herr.
  apply (skipped_run_same_tree lexer_rules parser_rules start_rule "WS" ws_set ws_pred c w1 w2 y la x rest1); try assumption; try reflexivity;
    try exact ws_rule_in_grammar; destruct Hc as [<-|[<-|[<-|[<-|[]]]]]; vm_compute; reflexivity.
Qed.
Print Assumptions C11_white_space_does_not_change_the_tree.

(* the general form: any token table with a skipped single-character-run rule, any grammar over it *)
Theorem C11_skipped_run_same_tree : forall rules prules start nm0 q pr c w1 w2 y la x rest1,
  table_ok c rules = true -> In (nm0, (true, false, LPlus q)) rules -> single_char q = Some pr -> others_silent rules nm0 c = true -> pr c = true ->
  run_len pr w1 = String.length w1 -> run_len pr w2 = String.length w2 -> (match y with EmptyString => true | String a _ => negb (pr a) end) = true ->
  lex_all rules (x ++ String c (w1 ++ y)) = Some (la ++ rest1) -> concat_lexemes la = x -> no_err la -> has_lex_error (la ++ rest1) = false ->
  erase_o (parse_text rules prules start (x ++ String c (w1 ++ y))) = erase_o (parse_text rules prules start (x ++ String c (w2 ++ y))).
Proof. exact skipped_run_same_tree. Qed.
Print Assumptions C11_skipped_run_same_tree.

(* non-vacuity: a concrete text meets the hypotheses ("a = enum { x; }" with the run after "=") *)
Example C11_white_space_tree_hypotheses_hold :
  let x := "a ="%string in let y := "enum { x; }"%string in
  exists la rest1, lex_all lexer_rules (x ++ String " " (" " ++ y)) = Some (la ++ rest1) /\ concat_lexemes la = x /\ no_err la /\ has_lex_error (la ++ rest1) = false.
Proof.
  cbv zeta. destruct (lex_all lexer_rules ("a =" ++ String " " (" " ++ "enum { x; }"))) as [ls|] eqn:E; [|vm_compute in E; discriminate].
  vm_compute in E. injection E as <-. eexists (firstn 3 _), (skipn 3 _). rewrite firstn_skipn. cbn [firstn skipn].
  split; [reflexivity|]. split; [vm_compute; reflexivity|]. split; [repeat constructor | vm_compute; reflexivity].
Qed.

(* any number of white-space changes, in either direction: the reflexive-symmetric-transitive closure of "one white-space run between two
   lexemes of an error-free text is replaced by another one that starts with the same character" relates only texts with the same parse tree
   up to positions.  (Symmetry is sound because the replaced text is again error-free with a boundary in front of the run:
   skipped_run_same_tokens.) *)
Inductive ws_reformat : string -> string -> Prop :=
| ws_reformat_intro : forall c w1 w2 y la x rest1, In c [nl; " "%char; "009"%char; "013"%char] ->
    run_len ws_pred w1 = String.length w1 -> run_len ws_pred w2 = String.length w2 -> (match y with EmptyString => true | String a _ => negb (ws_pred a) end) = true ->
    lex_all lexer_rules (x ++ String c (w1 ++ y)) = Some (la ++ rest1) -> concat_lexemes la = x -> no_err la -> has_lex_error (la ++ rest1) = false ->
    ws_reformat (x ++ String c (w1 ++ y)) (x ++ String c (w2 ++ y)).

Theorem C11_any_number_of_white_space_changes : forall s1 s2, clos_refl_sym_trans _ ws_reformat s1 s2 ->
  erase_o (parse_text lexer_rules parser_rules start_rule s1) = erase_o (parse_text lexer_rules parser_rules start_rule s2).
Proof.
  intros s1 s2 H. induction H as [a b Hab|a|a b _ IH|a b d _ IH1 _ IH2].
  - destruct Hab as [c w1 w2 y la x rest1 Hc Hw1 Hw2 Hy HL Hla Hne Herr].
    exact (C11_white_space_does_not_change_the_tree c Hc w1 w2 y la x rest1 Hw1 Hw2 Hy HL Hla Hne Herr).
  - reflexivity.
  - symmetry; exact IH.
  - now rewrite IH1.
Qed.
Print Assumptions C11_any_number_of_white_space_changes.

Theorem C11_reformatted_same_tree : forall rules prules start nm0 q pr s1 s2,
  In (nm0, (true, false, LPlus q)) rules -> single_char q = Some pr ->
  clos_refl_sym_trans _ (run_step rules nm0 q pr) s1 s2 ->
  erase_o (parse_text rules prules start s1) = erase_o (parse_text rules prules start s2).
Proof. exact reformatted_same_tree. Qed.
Print Assumptions C11_reformatted_same_tree.

(* non-vacuity of the closure: two changes in a row (a blank removed after "=", then a line break added after the brace) *)
Definition lexemes_of (s : string) : list lexeme := match lex_all lexer_rules s with Some l => l | None => [] end.
Example C11_two_white_space_changes :
  clos_refl_sym_trans _ ws_reformat "a =  enum { x; }" ("a = enum { " ++ String nl " x; }")%string.
Proof.
  apply rst_trans with "a = enum { x; }".
  - apply rst_step.
    refine (ws_reformat_intro " " " " "" "enum { x; }" (firstn 3 (lexemes_of "a =  enum { x; }")) "a =" (skipn 3 (lexemes_of "a =  enum { x; }")) _ _ _ _ _ _ _ _);
      try rewrite firstn_skipn; try (vm_compute; reflexivity); [vm_compute; auto | vm_compute; repeat constructor].
  - apply rst_step.
    refine (ws_reformat_intro " " "" (String nl " ") "x; }" (firstn 7 (lexemes_of "a = enum { x; }")) "a = enum {" (skipn 7 (lexemes_of "a = enum { x; }")) _ _ _ _ _ _ _ _);
      try rewrite firstn_skipn; try (vm_compute; reflexivity); [vm_compute; auto | vm_compute; repeat constructor].
Qed.

(* the token-level statement behind the two theorems above, for the grammar of this run: the changed text is tokenised with the same lexemes in
   front, the same token types and texts overall, and a lexical error neither appears nor disappears *)
Theorem C11_white_space_same_tokens : forall c, In c [nl; " "%char; "009"%char; "013"%char] ->
  forall w1 w2 y la x rest1,
  run_len ws_pred w1 = String.length w1 -> run_len ws_pred w2 = String.length w2 -> (match y with EmptyString => true | String a _ => negb (ws_pred a) end) = true ->
  lex_all lexer_rules (x ++ String c (w1 ++ y)) = Some (la ++ rest1) -> concat_lexemes la = x -> no_err la ->
  exists rest2, lex_all lexer_rules (x ++ String c (w2 ++ y)) = Some (la ++ rest2) /\
    Forall2 same_tok (tokens_of (la ++ rest1)) (tokens_of (la ++ rest2)) /\ has_lex_error (la ++ rest1) = has_lex_error (la ++ rest2).
Proof.
  intros c Hc w1 w2 y la x rest1 H1 H2 Hy HL Hla Hne. unfold lex_all in *.
  apply (skipped_run_same_tokens lexer_rules "WS" ws_set ws_pred c w1 w2 y la x (String.length (x ++ String c (w1 ++ y))) (String.length (x ++ String c (w2 ++ y))) 1 0 rest1); try assumption; try reflexivity;
    try exact ws_rule_in_grammar; try apply le_n; destruct Hc as [<-|[<-|[<-|[<-|[]]]]]; vm_compute; reflexivity.
Qed.
Print Assumptions C11_white_space_same_tokens.
