(* C11 - Source layout does not matter: whitespace, declaration order, file split.
   Whitespace / line breaks: the parser model (generic parser on the grammar translated from Idl.g4, tied to ANTLR by K-parse) looks at token
   types only - two texts whose token streams agree on (type, text) have the same parse tree up to positions (C11_reformatting); that white
   space produces no token is the `-> skip` of the grammar's WS rule (K-parse + the re-layout oracle of C03 check it on the real lexer).  Proved here too, for declaration lists of any length: rule diagnostics and reference
   bindings are invariant under permutation and under splitting into imported/importing parts.  Equality of the
   GENERATED FILES is decided on the implementation by the metamorphic correspondence of this property (permutations,
   partitions into import trees, all targets, banner line excluded). *)
From Coq Require Import List String Bool Arith Permutation.
From PDV Require Import Idl.GrammarDefs Idl.Lexer Idl.ParserG Idl.LayoutFree.
From PDV Require Import Lib.StrUtil Idl.Cst Idl.Ast Idl.Resolver Idl.ResolverProofs Idl.Visitor Idl.Front Idl.ChecksProofs Idl.LayoutProofs.
Import ListNotations.
Open Scope string_scope. Open Scope list_scope.

Theorem C11_diagnostics_permutation : forall b ds ds',
  Permutation ds ds' -> Permutation (post_checks b ds) (post_checks b ds').
Proof. exact post_checks_permutation. Qed.
Print Assumptions C11_diagnostics_permutation.

Theorem C11_acceptance_permutation : forall b ds ds',
  Permutation ds ds' -> (post_checks b ds = [] <-> post_checks b ds' = []).
Proof. exact post_checks_permutation_accept. Qed.
Print Assumptions C11_acceptance_permutation.

Theorem C11_bindings_permutation : forall (r : registry tdef) ds ds' r1,
  NoDup (map fst r) -> Permutation ds ds' -> register_all r ds = Some r1 ->
  exists r2, register_all r ds' = Some r2 /\ forall ns name, resolve r1 ns name = resolve r2 ns name.
Proof. exact bindings_permutation. Qed.
Print Assumptions C11_bindings_permutation.

Theorem C11_file_split_diagnostics : forall b imported local,
  Permutation (post_checks b (imported ++ local)) (post_checks b local ++ post_checks b imported).
Proof. exact post_checks_split. Qed.
Print Assumptions C11_file_split_diagnostics.

Theorem C11_file_split_registry : forall (ds1 ds2 : list (list string * string * tdef)) (r : registry tdef),
  register_all r (ds1 ++ ds2) = match register_all r ds1 with Some r1 => register_all r1 ds2 | None => None end.
Proof. exact (register_all_app tdef). Qed.
Print Assumptions C11_file_split_registry.

(* re-formatting: texts with the same tokens (types and texts) are parsed to the same tree up to the recorded positions, or both rejected -
   for every lexer table and every grammar *)
Theorem C11_reformatting : forall lrules prules start s1 s2 ls1 ls2,
  lex_all lrules s1 = Some ls1 -> lex_all lrules s2 = Some ls2 -> has_lex_error ls1 = false -> has_lex_error ls2 = false ->
  Forall2 same_tok (tokens_of ls1) (tokens_of ls2) ->
  erase_o (parse_text lrules prules start s1) = erase_o (parse_text lrules prules start s2).
Proof. exact parse_text_layout_free. Qed.
Print Assumptions C11_reformatting.

Theorem C11_every_parse_is_layout_free : forall rules toks1 toks2, Forall2 same_tok toks1 toks2 ->
  forall fuel g pos, Forall2 rel (ParserG.parse rules toks1 fuel g pos) (ParserG.parse rules toks2 fuel g pos).
Proof. exact parse_layout_free. Qed.
Print Assumptions C11_every_parse_is_layout_free.
