(* String utilities shared by the models: Python-like split/join/startswith with the lemmas the
   property proofs need.  Stdlib only. *)
From Coq Require Import List String Ascii Bool Arith Lia.
Import ListNotations.
Open Scope string_scope.

Definition dot : ascii := "."%char.

(* Python: sep.join(l) for a one-character separator *)
Fixpoint join (sep : string) (l : list string) : string :=
  match l with
  | [] => ""
  | [x] => x
  | x :: rest => x ++ sep ++ join sep rest
  end.

(* Python: s.split(c) for a one-character separator: always at least one piece *)
Fixpoint split_on (c : ascii) (s : string) : list string :=
  match s with
  | EmptyString => [""]
  | String a rest =>
      if Ascii.eqb a c then "" :: split_on c rest
      else match split_on c rest with
           | [] => [String a ""]   (* unreachable: split_on never returns [] *)
           | p :: ps => String a p :: ps
           end
  end.

Fixpoint has_char (c : ascii) (s : string) : bool :=
  match s with
  | EmptyString => false
  | String a rest => Ascii.eqb a c || has_char c rest
  end.

Definition starts_with (p s : string) : bool := String.prefix p s.

Definition drop1 (s : string) : string :=
  match s with EmptyString => "" | String _ r => r end.

Fixpoint str_rev_acc (s acc : string) : string :=
  match s with EmptyString => acc | String a r => str_rev_acc r (String a acc) end.
Definition str_rev (s : string) := str_rev_acc s "".

Lemma app_nil_r_s (s : string) : s ++ "" = s.
Proof. induction s as [|a s IH]; cbn; [reflexivity | now rewrite IH]. Qed.

Lemma app_assoc_s (a b c : string) : (a ++ b) ++ c = a ++ (b ++ c).
Proof. induction a as [|x a IH]; cbn; [reflexivity | now rewrite IH]. Qed.

Lemma split_on_nonempty c s : split_on c s <> [].
Proof.
  induction s as [|a s IH]; cbn; [discriminate|].
  destruct (Ascii.eqb a c); [discriminate|].
  destruct (split_on c s); [contradiction | discriminate].
Qed.

Lemma split_on_nochar c s : has_char c s = false -> split_on c s = [s].
Proof.
  induction s as [|a s IH]; cbn; intros H; [reflexivity|].
  apply orb_false_iff in H as [Ha Hs]. rewrite Ha, (IH Hs). reflexivity.
Qed.

Lemma split_on_app_sep c p rest :
  has_char c p = false ->
  split_on c (p ++ String c rest) = p :: split_on c rest.
Proof.
  induction p as [|a p IH]; cbn; intros H.
  - now rewrite Ascii.eqb_refl.
  - apply orb_false_iff in H as [Ha Hp]. rewrite Ha, (IH Hp). reflexivity.
Qed.

(* join then split is the identity on lists of separator-free pieces *)
Lemma split_on_join c l :
  l <> [] -> Forall (fun s => has_char c s = false) l ->
  split_on c (join (String c "") l) = l.
Proof.
  induction l as [|x l IH]; intros Hne HF; [contradiction|].
  inversion HF as [|? ? Hx Hl]; subst.
  destruct l as [|y l'].
  - cbn. now apply split_on_nochar.
  - change (join (String c "") (x :: y :: l')) with (x ++ String c "" ++ join (String c "") (y :: l')).
    cbn [append]. rewrite split_on_app_sep by assumption.
    rewrite IH; [reflexivity | discriminate | assumption].
Qed.

Lemma join_inj c l l' :
  l <> [] -> l' <> [] ->
  Forall (fun s => has_char c s = false) l -> Forall (fun s => has_char c s = false) l' ->
  join (String c "") l = join (String c "") l' -> l = l'.
Proof.
  intros H1 H2 F1 F2 E.
  rewrite <- (split_on_join c l H1 F1), <- (split_on_join c l' H2 F2), E. reflexivity.
Qed.

Lemma has_char_app c a b : has_char c (a ++ b) = has_char c a || has_char c b.
Proof. induction a as [|x a IH]; cbn; [reflexivity|]. now rewrite IH, orb_assoc. Qed.

Lemma join_cons_cons sep x y l : join sep (x :: y :: l) = x ++ sep ++ join sep (y :: l).
Proof. reflexivity. Qed.

Lemma join_app_single sep l x : l <> [] -> join sep (l ++ [x])%list = join sep l ++ sep ++ x.
Proof.
  induction l as [|a l IH]; intros H; [contradiction|].
  destruct l as [|b l'].
  - reflexivity.
  - cbn [List.app]. rewrite join_cons_cons.
    change (b :: (l' ++ [x])%list) with ((b :: l') ++ [x])%list.
    rewrite IH by discriminate. rewrite join_cons_cons. now rewrite !app_assoc_s.
Qed.

Fixpoint str_drop_last (s : string) : string :=
  match s with
  | EmptyString => ""
  | String a EmptyString => ""
  | String a rest => String a (str_drop_last rest)
  end.
(* s[1:-1] *)
Definition middle_str (s : string) : string := str_drop_last (drop1 s).
